package main

import (
	"os"

	"p9sym/sym"
)

func main() {
	os.Exit(sym.Main(os.Args[1:]))
}
