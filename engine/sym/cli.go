package sym

import (
	"encoding/json"
	"flag"
	"fmt"
	"os"
	"path/filepath"
	"runtime"
	"sort"
	"strconv"
	"strings"
	"time"
)

func verifDir() string {
	if d := os.Getenv("VERIF_DIR"); d != "" {
		return d
	}
	exe, err := os.Executable()
	if err == nil {
		d := filepath.Dir(filepath.Dir(exe))
		if _, err := os.Stat(filepath.Join(d, "harness")); err == nil {
			return d
		}
	}
	return "/verif"
}

func repoDir() string {
	if d := os.Getenv("VERIF_REPO"); d != "" {
		return d
	}
	return "/repo"
}

type paramFlags map[string]int

func (p paramFlags) String() string { return fmt.Sprint(map[string]int(p)) }
func (p paramFlags) Set(s string) error {
	kv := strings.SplitN(s, "=", 2)
	if len(kv) != 2 {
		return fmt.Errorf("want k=v")
	}
	v, err := strconv.Atoi(kv[1])
	if err != nil {
		return err
	}
	p[kv[0]] = v
	return nil
}

func Main(args []string) int {
	if len(args) == 0 {
		fmt.Println("usage: p9sym harness|run|replay|selftest ...")
		return 2
	}
	switch args[0] {
	case "harness":
		return cmdHarness(args[1:])
	case "run":
		return cmdRun(args[1:])
	case "replay":
		return cmdReplay(args[1:])
	case "selftest":
		return cmdSelftest(args[1:])
	case "sched":
		fs := flag.NewFlagSet("sched", flag.ExitOnError)
		pkg := fs.String("pkg", "p9", "package dir")
		fn := fs.String("fn", "", "harness")
		verbose := fs.Bool("v", false, "verbose")
		workers := fs.Int("workers", runtime.NumCPU(), "workers")
		params := paramFlags{}
		fs.Var(params, "p", "param k=v")
		listS := fs.String("list", "", "comma-separated scenario numbers")
		fs.Parse(args[1:])
		var list []int
		for _, x := range strings.Split(*listS, ",") {
			var n int
			if _, err := fmt.Sscan(x, &n); err == nil {
				list = append(list, n)
			}
		}
		l, err := Load(repoDir(), filepath.Join(verifDir(), "harness"), []string{*pkg})
		if err != nil {
			fmt.Println(err)
			return 2
		}
		f := l.Func(ModulePath+"/"+*pkg, *fn)
		if f == nil {
			fmt.Println("no such harness")
			return 2
		}
		res := RunSchedList(l, f, params, list, *workers, 60000, *verbose)
		printResult(res)
		var nt *NativeTest
		for i := range res.Violations {
			v := &res.Violations[i]
			fmt.Printf("   SCHED-VIOL %s: %s\n", v.Label, v.Msg)
			for _, t := range v.Trace {
				fmt.Println("        ", t)
			}
			if os.Getenv("VERIF_SCHED_REPLAY") != "" {
				if nt == nil {
					if v.SchedFree {
						nt, err = BuildNativeTestRace(repoDir(), filepath.Join(verifDir(), "harness"), *pkg)
					} else {
						nt, err = BuildNativeTest(repoDir(), filepath.Join(verifDir(), "harness"), *pkg)
					}
					if err != nil {
						fmt.Println(err)
						return 2
					}
					defer nt.Close()
				}
				tape := filepath.Join(nt.Tmp, fmt.Sprintf("v%d.json", i))
				if v.Params == nil {
					v.Params = params
				}
				writeReplayFile(tape, "", *pkg, v)
				r, _ := nt.Run(tape, 30*time.Second)
				fmt.Printf("   NATIVE: %s  (confirms=%v)\n", r, confirms(v, r))
			}
		}
		return 0
	case "ssa":
		l, err := Load(repoDir(), filepath.Join(verifDir(), "harness"), []string{args[1]})
		if err != nil {
			fmt.Println(err)
			return 2
		}
		f := l.Func(ModulePath+"/"+args[1], args[2])
		if f == nil {
			fmt.Println("not found")
			return 2
		}
		f.WriteTo(os.Stdout)
		for _, af := range f.AnonFuncs {
			af.WriteTo(os.Stdout)
		}
		return 0
	}
	fmt.Println("unknown command", args[0])
	return 2
}

func cmdHarness(args []string) int {
	if os.Getenv("VERIF_FORK_PROFILE") != "" {
		forkProfile = map[string]int{}
		defer func() {
			type kv struct {
				k string
				n int
			}
			var l []kv
			for k, n := range forkProfile {
				l = append(l, kv{k, n})
			}
			sort.Slice(l, func(i, j int) bool { return l[i].n > l[j].n })
			for i, e := range l {
				if i < 25 {
					fmt.Printf("  FORK %6d %s\n", e.n, e.k)
				}
			}
		}()
	}
	fs := flag.NewFlagSet("harness", flag.ExitOnError)
	repo := fs.String("repo", repoDir(), "repo")
	pkg := fs.String("pkg", "p9", "package dir")
	fn := fs.String("fn", "", "harness function")
	workers := fs.Int("workers", runtime.NumCPU(), "workers")
	verbose := fs.Bool("v", false, "verbose")
	timeout := fs.Int("timeout", 60000, "solver timeout ms")
	maxPaths := fs.Int("maxpaths", 0, "max paths")
	doReplay := fs.Bool("replay", false, "replay violations natively")
	stopViol := fs.Int("stopviol", 0, "stop after this many violations")
	params := paramFlags{}
	fs.Var(params, "p", "param k=v")
	fs.Parse(args)
	t0 := time.Now()
	l, err := Load(*repo, filepath.Join(verifDir(), "harness"), []string{*pkg})
	if err != nil {
		fmt.Println("LOAD ERROR:", err)
		return 2
	}
	fmt.Printf("loaded in %.1fs\n", time.Since(t0).Seconds())
	names := []string{*fn}
	if *fn == "" {
		names = l.Harnesses(ModulePath + "/" + *pkg)
	}
	rc := 0
	for _, name := range names {
		f := l.Func(ModulePath+"/"+*pkg, name)
		if f == nil {
			fmt.Println("no such harness", name)
			return 2
		}
		ex := &Explorer{L: l, Fn: f, Params: params, Workers: *workers, Verbose: *verbose, TimeoutMs: *timeout, MaxPaths: *maxPaths, StopViolations: *stopViol}
		res := ex.Run()
		printResult(res)
		if *doReplay {
			for i := range res.Violations {
				v := &res.Violations[i]
				out, err := ReplayNative(*repo, filepath.Join(verifDir(), "harness"), *pkg, v, "")
				fmt.Printf("  replay %s/%s -> %s %v\n", v.Harness, v.Label, out, err)
				if i >= 3 {
					break
				}
			}
		}
		if len(res.Violations) > 0 {
			rc = 1
		}
	}
	return rc
}

func printResult(res *HarnessResult) {
	fmt.Printf("== %s: paths=%d statuses=%v asserts=%d (trivial %d, discharged %d, unknown %d) violations=%d queries=%d (sat %d unsat %d unknown %d) solver=%.2fs wall=%.2fs steps=%d maxpathsteps=%d\n",
		res.Harness, res.Paths, res.Statuses, res.Asserts, res.Trivial, res.Discharged, res.Unknown, len(res.Violations),
		res.Queries, res.NSat, res.NUnsat, res.NUnknown, res.SolveTime.Seconds(), res.Wall.Seconds(), res.Steps, res.MaxStepsPath)
	if len(res.Reached) > 0 {
		var ks []string
		for k, n := range res.Reached {
			ks = append(ks, fmt.Sprintf("%s:%d", k, n))
		}
		sort.Strings(ks)
		fmt.Println("   reached:", strings.Join(ks, " "))
	}
	for i, o := range res.Outs {
		if i < 3 {
			for _, l := range o {
				fmt.Println("   OUT", l)
			}
		}
	}
	for msg, n := range res.Undecided {
		fmt.Printf("   UNDECIDED x%d: %s\n", n, msg)
	}
	for msg, n := range res.Unwinds {
		fmt.Printf("   UNWIND x%d: %s\n", n, msg)
	}
	for msg, n := range res.EngineErrors {
		fmt.Printf("   ENGINE-ERROR x%d: %s\n", n, msg)
	}
	for _, e := range res.SolverErrors {
		fmt.Println("   SOLVER-ERROR:", e)
	}
	seen := map[string]int{}
	for _, v := range res.Violations {
		k := v.Kind + "/" + v.Label + " " + v.Msg
		seen[k]++
		if seen[k] == 1 {
			b, _ := json.Marshal(v.Tape)
			s := string(b)
			if len(s) > 600 {
				s = s[:600] + "…"
			}
			fmt.Printf("   VIOL %s decisions=%v tape=%s\n", k, v.Decisions, s)
			for _, o := range v.Outs {
				fmt.Println("         out:", o)
			}
			for _, t := range v.Trace {
				fmt.Println("        ", t)
			}
		}
	}
	for k, n := range seen {
		if n > 1 {
			fmt.Printf("   (%d× %s)\n", n, k)
		}
	}
}
