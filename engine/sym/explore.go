package sym

import (
	"fmt"
	"math/rand"
	"os"
	"sort"
	"strings"
	"sync"
	"time"

	"golang.org/x/tools/go/ssa"
)

// Decision is one recorded nondeterministic step of a path.
type Decision struct {
	V   int32  // branch: 1/0; choice: value; assert: 1 = violated (then assumed)
	Aux uint64 // concretize: the value tried
}

type TapeEntry struct {
	Kind string   `json:"k"`           // u8,u16,u32,u64,bool,bytes,choice
	Vals []uint64 `json:"v"`           // filled from the model
	Note string   `json:"n,omitempty"` // label
	vars []*Term
}

type AssertRec struct {
	Label   string
	Verdict string // "unsat","sat","unknown","trivial","const-false"
	Ms      float64
	Size    int
}

type Violation struct {
	Harness   string         `json:"harness"`
	Label     string         `json:"label"`
	Kind      string         `json:"kind"` // assert | panic | blocked | deadlock
	Msg       string         `json:"msg,omitempty"`
	Decisions []int32        `json:"decisions"`
	Tape      []TapeEntry    `json:"tape"`
	Params    map[string]int `json:"params"`
	Trace     []string       `json:"trace,omitempty"`
	Outs      []string       `json:"outs,omitempty"`
	Sched     []SchedStep    `json:"sched_order,omitempty"`
	SchedHang bool           `json:"sched_hang,omitempty"`
	SchedFree bool           `json:"sched_free,omitempty"` // threads run free under the race detector
	Confirmed string         `json:"confirmed,omitempty"`  // set by replay
	ReplayOut string         `json:"-"`
}

// SchedStep is one gateable event (a user event of a thread) of a schedule witness.
type SchedStep struct {
	Thread string `json:"t"`
	N      int    `json:"n"` // ordinal among the thread's user events
	Text   string `json:"e"`
}

// Path is the per-path exploration state.
type Path struct {
	prefix []Decision
	pos    int
	dec    []Decision
	pc     []*Term
	sent   int
	tape   []TapeEntry
	nvars  int

	reached       map[string]bool
	asserts       []AssertRec
	viols         []Violation
	outs          []string
	outVals       [][]Value // arguments of each verifOut, for rendering under a model
	status        string
	statusMsg     string
	allocHook     func(*Term)
	prefixChecked bool
	notes         []string
	cross         []CrossQuery
}

func (p *Path) replaying() bool { return p.pos < len(p.prefix) }

// HarnessResult aggregates the exploration of one harness.
type HarnessResult struct {
	Harness                                       string
	Params                                        map[string]int
	Paths                                         int
	Statuses                                      map[string]int
	Reached                                       map[string]int
	Asserts                                       int
	Trivial                                       int
	Discharged                                    int
	Unknown                                       int
	Distinct                                      map[string]bool
	Violations                                    []Violation
	EngineErrors                                  map[string]int
	Funcs                                         map[string]bool
	Stubs                                         map[string]bool
	Queries                                       int
	NSat, NUnsat, NUnknown                        int
	SolverErrors                                  []string
	SolveTime                                     time.Duration
	Wall                                          time.Duration
	Samples                                       []map[string]interface{}
	Steps                                         int64
	Traces                                        []*ThreadTrace // thread mode
	MaxPaths                                      bool
	CrossQueries                                  []CrossQuery
	Outs                                          [][]string
	SchedStates, SchedTransitions, SchedValidated int
	DistinctPath                                  map[string]bool   // (label, path) of assertions folded to true on a path with a symbolic path condition
	Undecided                                     map[string]int    // schedule layer: combinations outside the decided bound
	soloReplies                                   []map[string]bool // schedule layer: per thread, the replies observed when running alone
	ViolCount                                     map[string]int
	NViolations                                   int
	Unwinds                                       map[string]int
	MaxStepsPath                                  int64
	StoppedOnViolations                           bool
	RandTape                                      []TapeEntry
	RandOutcome                                   string
}

// CrossQuery is a sampled assertion query kept for re-checking by other solvers.
type CrossQuery struct {
	Label   string
	Script  string
	Verdict string
}

type Explorer struct {
	pushes         int // alternatives queued so far (fork profile)
	L              *Loaded
	Fn             *ssa.Function
	Params         map[string]int
	Workers        int
	MaxPaths       int
	TimeoutMs      int
	Deadline       time.Time
	Verbose        bool
	RandSeed       int64 // != 0: single random-concrete run (translator validation)
	StopViolations int   // stop exploring after this many violations (default 48)

	mu      sync.Mutex
	cond    *sync.Cond
	stack   [][]Decision
	active  int
	res     *HarnessResult
	stopped bool

	pdomCache map[*ssa.Function]map[*ssa.BasicBlock]*ssa.BasicBlock

	schedShared *schedShared
	schedNames  *[]string
}

func (ex *Explorer) push(p []Decision) {
	ex.mu.Lock()
	ex.stack = append(ex.stack, p)
	ex.pushes++
	ex.mu.Unlock()
	ex.cond.Signal()
}

func (ex *Explorer) pop() ([]Decision, bool) {
	ex.mu.Lock()
	defer ex.mu.Unlock()
	for {
		if ex.stopped {
			return nil, false
		}
		if n := len(ex.stack); n > 0 {
			p := ex.stack[n-1]
			ex.stack = ex.stack[:n-1]
			ex.active++
			return p, true
		}
		if ex.active == 0 {
			ex.cond.Broadcast()
			return nil, false
		}
		ex.cond.Wait()
	}
}

func (ex *Explorer) done() {
	ex.mu.Lock()
	ex.active--
	if ex.active == 0 && len(ex.stack) == 0 {
		ex.cond.Broadcast()
	}
	ex.mu.Unlock()
}

// Run explores all paths of the harness.
func (ex *Explorer) Run() *HarnessResult {
	t0 := time.Now()
	ex.cond = sync.NewCond(&ex.mu)
	ex.res = &HarnessResult{
		Harness: ex.Fn.Name(), Params: ex.Params,
		Statuses: map[string]int{}, Reached: map[string]int{}, Distinct: map[string]bool{},
		EngineErrors: map[string]int{}, Funcs: map[string]bool{}, Stubs: map[string]bool{},
	}
	ex.stack = [][]Decision{nil}
	if ex.Workers <= 0 {
		ex.Workers = 1
	}
	if ex.MaxPaths <= 0 {
		ex.MaxPaths = 2000000
	}
	var wg sync.WaitGroup
	for w := 0; w < ex.Workers; w++ {
		wg.Add(1)
		go func(w int) {
			defer wg.Done()
			ex.worker(w)
		}(w)
	}
	wg.Wait()
	ex.res.Wall = time.Since(t0)
	return ex.res
}

func (ex *Explorer) worker(id int) {
	var tc *TermCtx
	var solver *Solver
	npaths := 0
	reset := func() {
		if solver != nil {
			ex.collectSolver(solver)
			solver.Close()
		}
		tc = NewTermCtx()
		var err error
		solver, err = NewSolver(tc, ex.TimeoutMs)
		if err != nil {
			panic(err)
		}
		npaths = 0
	}
	reset()
	defer func() {
		ex.collectSolver(solver)
		solver.Close()
	}()
	for {
		prefix, ok := ex.pop()
		if !ok {
			return
		}
		if npaths > 400 || len(tc.tab) > 1500000 {
			reset()
		}
		npaths++
		in := newInterp(ex.L, tc, ex.Params)
		in.ex = ex
		in.solver = solver
		in.path = &Path{prefix: prefix, reached: map[string]bool{}}
		if ex.RandSeed != 0 {
			in.rand = rand.New(rand.NewSource(ex.RandSeed))
		}
		in.runHarness(ex.Fn)
		solver.PopTo(0)
		ex.collectPath(in)
		ex.done()
	}
}

func (ex *Explorer) collectSolver(s *Solver) {
	ex.mu.Lock()
	defer ex.mu.Unlock()
	r := ex.res
	r.Queries += s.Queries
	r.NSat += s.NSat
	r.NUnsat += s.NUnsat
	r.NUnknown += s.NUnknown
	r.SolveTime += s.SolveTime
	for _, e := range s.Errors {
		if len(r.SolverErrors) < 10 {
			r.SolverErrors = append(r.SolverErrors, e)
		}
	}
	s.Queries, s.NSat, s.NUnsat, s.NUnknown, s.SolveTime, s.Errors = 0, 0, 0, 0, 0, nil
}

func (ex *Explorer) collectPath(in *Interp) {
	p := in.path
	ex.mu.Lock()
	defer ex.mu.Unlock()
	r := ex.res
	r.Paths++
	r.Steps += in.steps
	r.Statuses[p.status]++
	if strings.HasPrefix(p.status, "engine") {
		r.EngineErrors[p.statusMsg]++
	}
	if p.status == "end:unwind" || p.status == "end:infeasible" {
		if r.Unwinds == nil {
			r.Unwinds = map[string]int{}
		}
		r.Unwinds[p.statusMsg]++
	}
	for l := range p.reached {
		r.Reached[l]++
	}
	for _, a := range p.asserts {
		r.Asserts++
		switch a.Verdict {
		case "trivial":
			r.Trivial++
		case "unsat":
			r.Discharged++
		case "unknown":
			r.Unknown++
		}
	}
	for f := range in.funcsSeen {
		r.Funcs[f.String()] = true
	}
	for s := range in.stubsUsed {
		r.Stubs[s] = true
	}
	for _, v := range p.viols {
		if r.ViolCount == nil {
			r.ViolCount = map[string]int{}
		}
		sig := violSig(&v)
		r.ViolCount[sig]++
		// keep at most 6 witnesses per signature, 400 in total
		if r.ViolCount[sig] <= 6 && len(r.Violations) < 400 {
			r.Violations = append(r.Violations, v)
		}
		r.NViolations++
	}
	for _, k := range p.notes {
		r.Distinct[k] = true
	}
	// assertions that folded to true on a path whose path condition is symbolic:
	// the assertion holds for every input of the region the solver found feasible
	if len(p.pc) > 0 && len(p.dec) > 0 {
		if r.DistinctPath == nil {
			r.DistinctPath = map[string]bool{}
		}
		dl := fmt.Sprint(decList(p.dec))
		for _, a := range p.asserts {
			if a.Verdict == "trivial" {
				r.DistinctPath[a.Label+"/"+dl] = true
			}
		}
	}
	for _, q := range p.cross {
		if len(r.CrossQueries) < 60 {
			r.CrossQueries = append(r.CrossQueries, q)
		}
	}
	if len(p.outs) > 0 && len(r.Outs) < 50 {
		r.Outs = append(r.Outs, p.outs)
	}
	if len(r.Samples) < 6 && len(p.asserts) > 0 {
		last := p.asserts[len(p.asserts)-1]
		dl := decList(p.dec)
		if len(dl) > 40 {
			dl = dl[:40]
		}
		r.Samples = append(r.Samples, map[string]interface{}{
			"harness": ex.Fn.Name(), "decisions": dl, "assert": last.Label,
			"verdict": last.Verdict, "ms": last.Ms, "status": p.status, "pc_terms": len(p.pc), "query_dag_size": last.Size,
		})
	}
	if in.rand != nil {
		r.RandTape = p.tape
		switch {
		case len(p.viols) > 0:
			r.RandOutcome = "assert-failed " + p.viols[0].Label
			if p.viols[0].Kind != "assert" {
				r.RandOutcome = p.viols[0].Kind
			}
		case p.status == "ok":
			r.RandOutcome = "pass"
		case p.status == "end:assume":
			r.RandOutcome = "not-a-model"
		default:
			r.RandOutcome = p.status + " " + p.statusMsg
		}
	}
	if in.thread != nil && in.thread.trace != nil && in.thread.trace.Status != "" {
		r.Traces = append(r.Traces, in.thread.trace)
	}
	if in.steps > r.MaxStepsPath {
		r.MaxStepsPath = in.steps
	}
	stopV := ex.StopViolations
	if stopV == 0 {
		stopV = 48
	}
	if r.NViolations >= stopV {
		r.StoppedOnViolations = true
		ex.stopped = true
		ex.cond.Broadcast()
	}
	if r.Paths >= ex.MaxPaths || (!ex.Deadline.IsZero() && time.Now().After(ex.Deadline)) {
		r.MaxPaths = true
		ex.stopped = true
		ex.cond.Broadcast()
	}
	if ex.Verbose && r.Paths%500 == 0 {
		fmt.Printf("  [%s] paths=%d queue=%d\n", ex.Fn.Name(), r.Paths, len(ex.stack))
	}
}

func decList(d []Decision) []int32 {
	r := make([]int32, len(d))
	for i, x := range d {
		r[i] = x.V
	}
	return r
}

// ---------- path operations used by the interpreter ----------

func (in *Interp) syncPC() {
	p := in.path
	if in.solver.Level() == 0 {
		in.solver.Push()
	}
	if !p.prefixChecked && len(p.prefix) > 0 && !p.replaying() {
		// the replayed prefix must be satisfiable: guards against any
		// nondeterminism between the run that queued it and this one
		p.prefixChecked = true
		for p.sent < len(p.pc) {
			in.solver.Assert(p.pc[p.sent])
			p.sent++
		}
		if in.solver.Check() == Unsat {
			panic(engineErr{"replayed prefix is infeasible (engine nondeterminism)"})
		}
	}
	for p.sent < len(p.pc) {
		in.solver.Assert(p.pc[p.sent])
		p.sent++
	}
}

func (in *Interp) addPC(c *Term) {
	if c.IsTrue() {
		return
	}
	in.path.pc = append(in.path.pc, c)
}

// branch decides a symbolic condition, forking the exploration if both
// outcomes are feasible.
func (in *Interp) branch(c *Term) bool {
	if c.IsConst() {
		return c.IsTrue()
	}
	p := in.path
	if p.replaying() {
		d := p.prefix[p.pos]
		p.pos++
		p.dec = append(p.dec, d)
		if d.V == 1 {
			in.addPC(c)
			return true
		}
		in.addPC(in.tc.Not(c))
		return false
	}
	in.syncPC()
	tq := time.Now()
	rt := in.solver.CheckWith(c)
	canT := rt != Unsat
	canF := true
	if canT {
		canF = in.solver.CheckWith(in.tc.Not(c)) != Unsat
	}
	if in.ex.Verbose && time.Since(tq) > 3*time.Second {
		fn := fmt.Sprintf("/tmp/slowb_%d.smt2", len(p.dec))
		os.WriteFile(fn, []byte(Script(append(append([]*Term{}, p.pc...), c), false)), 0o644)
		fmt.Printf("  SLOW-BRANCH %.1fs dec=%v script=%s\n", time.Since(tq).Seconds(), decList(p.dec), fn)
	}
	switch {
	case canT && canF:
		alt := append(append([]Decision(nil), p.dec...), Decision{V: 0})
		in.ex.push(alt)
		p.dec = append(p.dec, Decision{V: 1})
		in.addPC(c)
		return true
	case canT:
		p.dec = append(p.dec, Decision{V: 1})
		in.addPC(c)
		return true
	default:
		p.dec = append(p.dec, Decision{V: 0})
		in.addPC(in.tc.Not(c))
		return false
	}
}

// choice is a structural n-way fork.
func (in *Interp) choice(n int, what string) int {
	if n <= 1 {
		return 0
	}
	p := in.path
	if in.rand != nil {
		k := in.rand.Intn(n)
		if what == "verifChoice" {
			in.tapeAdd(TapeEntry{Kind: "choice", Vals: []uint64{uint64(k)}, Note: what})
		}
		return k
	}
	if p.replaying() {
		d := p.prefix[p.pos]
		p.pos++
		p.dec = append(p.dec, d)
		if what == "verifChoice" {
			in.tapeAdd(TapeEntry{Kind: "choice", Vals: []uint64{uint64(d.V)}, Note: what})
		}
		return int(d.V)
	}
	if forkProfile != nil {
		noteFork(fmt.Sprintf("choice(%d) %s in %s", n, what, in.curFn()))
	}
	for k := n - 1; k >= 1; k-- {
		alt := append(append([]Decision(nil), p.dec...), Decision{V: int32(k)})
		in.ex.push(alt)
	}
	p.dec = append(p.dec, Decision{V: 0})
	if what == "verifChoice" {
		in.tapeAdd(TapeEntry{Kind: "choice", Vals: []uint64{0}, Note: what})
	}
	return 0
}

// concretize enumerates the feasible values of t by forking.
func (in *Interp) concretize(t *Term, what string) int64 {
	if t.IsConst() {
		return t.Int64()
	}
	p := in.path
	for iter := 0; ; iter++ {
		if iter > in.param("concretize", 40) {
			panic(pathEnd{"unwind", "too many values while concretising " + what})
		}
		var v uint64
		if p.replaying() {
			v = p.prefix[p.pos].Aux
		} else {
			in.syncPC()
			in.solver.Push()
			r := in.solver.Check()
			if r != Sat {
				in.solver.Pop()
				panic(pathEnd{"infeasible", "concretize: path condition not sat (" + r.String() + ")"})
			}
			m, err := in.modelOf([]*Term{t})
			in.solver.Pop()
			if err != nil {
				panic(engineErr{"concretize: " + err.Error()})
			}
			v = m
		}
		eq := in.tc.Eq(t, in.tc.BV(t.W, v))
		if p.replaying() {
			d := p.prefix[p.pos]
			p.pos++
			p.dec = append(p.dec, d)
			if d.V == 1 {
				in.addPC(eq)
				return in.tc.BV(t.W, v).Int64()
			}
			in.addPC(in.tc.Not(eq))
			continue
		}
		// eq is feasible by construction; is the negation?
		canF := in.solver.CheckWith(in.tc.Not(eq)) != Unsat
		if canF {
			alt := append(append([]Decision(nil), p.dec...), Decision{V: 0, Aux: v})
			in.ex.push(alt)
		}
		p.dec = append(p.dec, Decision{V: 1, Aux: v})
		in.addPC(eq)
		return in.tc.BV(t.W, v).Int64()
	}
}

// modelOf evaluates a single term in the current model (after a Sat check).
func (in *Interp) modelOf(ts []*Term) (uint64, error) {
	t := ts[0]
	if in.solver.standaloneModel != nil {
		return in.tc.Eval(t, in.solver.standaloneModel, map[*Term]uint64{}), nil
	}
	// name the term so get-value can address it
	n := in.solver.name(t)
	in.solver.send("(get-value (" + n + "))\n")
	in.solver.flush()
	txt, err := in.solver.readSexp()
	if err != nil {
		return 0, err
	}
	// ((name value))
	i := strings.LastIndex(txt, "#")
	if i < 0 {
		if strings.Contains(txt, "true") {
			return 1, nil
		}
		if strings.Contains(txt, "false") {
			return 0, nil
		}
		return 0, fmt.Errorf("cannot parse %q", txt)
	}
	val := strings.TrimRight(txt[i:], ") \n")
	var v uint64
	if strings.HasPrefix(val, "#x") {
		fmt.Sscanf(val[2:], "%x", &v)
	} else {
		fmt.Sscanf(val[2:], "%b", &v)
	}
	return v, nil
}

func (in *Interp) assume(c *Term) {
	if c.IsConst() {
		if c.IsTrue() {
			return
		}
		panic(pathEnd{"assume", "assumption false"})
	}
	p := in.path
	if !p.replaying() {
		in.syncPC()
		if in.solver.CheckWith(c) == Unsat {
			panic(pathEnd{"assume", "assumption infeasible"})
		}
	}
	in.addPC(c)
}

func (in *Interp) reach(label string) {
	if in.path.replaying() {
		return
	}
	in.path.reached[label] = true
}

func (in *Interp) tapeAdd(e TapeEntry) {
	in.path.tape = append(in.path.tape, e)
}

// freshBytes creates n fresh byte symbols as one tape entry.
func (in *Interp) freshBytes(n int) []*Term {
	p := in.path
	e := TapeEntry{Kind: "bytes"}
	b := make([]*Term, n)
	for i := range b {
		if in.rand != nil {
			v := uint64(in.rand.Intn(256))
			if in.rand.Intn(4) == 0 {
				v = []uint64{0, '/', '.', 0xff}[in.rand.Intn(4)]
			}
			b[i] = in.tc.BV(8, v)
			e.Vals = append(e.Vals, v)
			continue
		}
		p.nvars++
		b[i] = in.tc.Var(fmt.Sprintf("n%d_b", p.nvars), 8)
		e.vars = append(e.vars, b[i])
	}
	in.tapeAdd(e)
	return b
}

func (in *Interp) freshScalar(kind string, w int) *Term {
	p := in.path
	if in.rand != nil {
		v := in.rand.Uint64()
		switch in.rand.Intn(6) {
		case 0:
			v = 0
		case 1:
			v = ^uint64(0)
		case 2:
			v = uint64(in.rand.Intn(16))
		}
		if w == 0 {
			v &= 1
			in.tapeAdd(TapeEntry{Kind: kind, Vals: []uint64{v}})
			return in.tc.Bool(v == 1)
		}
		v &= mask(w)
		in.tapeAdd(TapeEntry{Kind: kind, Vals: []uint64{v}})
		return in.tc.BV(w, v)
	}
	p.nvars++
	name := fmt.Sprintf("n%d_%s", p.nvars, kind)
	v := in.tc.Var(name, w)
	in.tapeAdd(TapeEntry{Kind: kind, vars: []*Term{v}})
	return v
}

// internalVar creates a symbol that is not on the replay tape.
func (in *Interp) internalVar(kind string, w int) *Term {
	p := in.path
	p.nvars++
	return in.tc.Var(fmt.Sprintf("i%d_%s_w%d", p.nvars, kind, w), w)
}

func (in *Interp) snapshotTape() []TapeEntry {
	p := in.path
	var vars []*Term
	for _, e := range p.tape {
		vars = append(vars, e.vars...)
	}
	model := map[string]uint64{}
	if len(vars) > 0 {
		m, err := in.solver.Model(vars)
		if err == nil {
			model = m
		}
	}
	in.lastModel = model
	out := make([]TapeEntry, len(p.tape))
	for i, e := range p.tape {
		out[i] = TapeEntry{Kind: e.Kind, Note: e.Note}
		if e.Kind == "choice" || len(e.vars) == 0 {
			out[i].Vals = e.Vals
			continue
		}
		out[i].Vals = make([]uint64, len(e.vars))
		for j, v := range e.vars {
			out[i].Vals[j] = model[v.Name]
		}
	}
	return out
}

func (in *Interp) recordViolation(kind, label, msg string, extra *Term) {
	p := in.path
	in.syncPC()
	in.solver.Push()
	if extra != nil {
		in.solver.Assert(extra)
	}
	r := in.solver.Check()
	var tape []TapeEntry
	if r == Sat {
		tape = in.snapshotTape()
	}
	in.solver.Pop()
	if r == Unsat {
		return
	}
	v := Violation{
		Harness: in.ex.Fn.Name(), Label: label, Kind: kind, Msg: msg,
		Decisions: decList(p.dec), Tape: tape, Params: in.params, Outs: in.renderOuts(),
	}
	if r == Unknown {
		v.Confirmed = "solver-unknown"
	}
	for _, e := range in.events {
		if len(v.Trace) < 80 {
			v.Trace = append(v.Trace, e.String())
		}
	}
	p.viols = append(p.viols, v)
}

// assertProp checks a harness assertion on the current path.
func (in *Interp) assertProp(c *Term, label string) {
	p := in.path
	if c.IsConst() {
		if p.replaying() {
			if c.IsFalse() {
				panic(pathEnd{"stop", "assertion already failed on this prefix"})
			}
			return
		}
		if c.IsTrue() {
			p.asserts = append(p.asserts, AssertRec{Label: label, Verdict: "trivial"})
			return
		}
		p.asserts = append(p.asserts, AssertRec{Label: label, Verdict: "const-false"})
		in.recordViolation("assert", label, "", nil)
		panic(pathEnd{"stop", "assertion failed: " + label})
	}
	if p.replaying() {
		d := p.prefix[p.pos]
		p.pos++
		p.dec = append(p.dec, d)
		in.addPC(c)
		return
	}
	in.syncPC()
	t0 := time.Now()
	nc := in.tc.Not(c)
	in.solver.Push()
	in.solver.Assert(nc)
	r := in.solver.Check()
	ms := float64(time.Since(t0).Microseconds()) / 1000
	rec := AssertRec{Label: label, Verdict: r.String(), Ms: ms, Size: nc.Size()}
	if ms > 3000 && in.ex.Verbose {
		fn := fmt.Sprintf("/tmp/slowq_%d.smt2", len(p.dec))
		os.WriteFile(fn, []byte(Script(append(append([]*Term{}, p.pc...), nc), false)), 0o644)
		fmt.Printf("  SLOW %.0fms %s verdict=%s dec=%v script=%s\n", ms, label, r, decList(p.dec), fn)
	}
	viol := int32(0)
	switch r {
	case Sat:
		tape := in.snapshotTape()
		in.solver.Pop()
		viol = 1
		v := Violation{Harness: in.ex.Fn.Name(), Label: label, Kind: "assert",
			Decisions: decList(p.dec), Tape: tape, Params: in.params, Outs: in.renderOuts()}
		for _, e := range in.events {
			if len(v.Trace) < 80 {
				v.Trace = append(v.Trace, e.String())
			}
		}
		p.viols = append(p.viols, v)
	case Unsat:
		in.solver.Pop()
		p.notes = append(p.notes, fmt.Sprintf("%s/%v", label, decList(p.dec)))
	default:
		in.solver.Pop()
	}
	if r != Unknown && len(p.cross) < 2 && (len(p.dec)+len(label)+len(p.pc))%7 == 0 {
		p.cross = append(p.cross, CrossQuery{Label: label, Verdict: r.String(), Script: Script(append(append([]*Term{}, p.pc...), nc), false)})
	}
	p.asserts = append(p.asserts, rec)
	p.dec = append(p.dec, Decision{V: viol})
	if viol == 1 {
		// continue under the assumption that the assertion holds
		if in.solver.CheckWith(c) == Unsat {
			panic(pathEnd{"stop", "assertion always fails: " + label})
		}
	}
	in.addPC(c)
}

func pcHash(pc []*Term) int {
	h := 17
	for _, t := range pc {
		h = h*31 + t.id
	}
	return h
}

// runHarness executes the harness function on the current path.
func (in *Interp) runHarness(fn *ssa.Function) {
	p := in.path
	defer func() {
		r := recover()
		switch r := r.(type) {
		case nil:
			p.status = "ok"
		case pathEnd:
			p.status = "end:" + r.status
			p.statusMsg = r.msg
			switch r.status {
			case "blocked", "deadlock":
				if in.param("allow_"+r.status, 0) == 0 && !p.replaying() {
					in.recordViolation(r.status, r.status, r.msg, nil)
				}
			case "steps":
				// no symbolic branch bounded this path: it looks like a loop
				// that does not terminate; confirmed natively by a timeout
				if !p.replaying() {
					in.recordViolation("blocked", "step-budget-exceeded-(nontermination)", r.msg, nil)
				}
			case "unwind":
				if in.param("debug_unwind", 0) == 1 && !p.replaying() {
					in.recordViolation("blocked", "unwind", r.msg, nil)
				}
			}
		case engineErr:
			p.status = "engine-error"
			p.statusMsg = r.msg
			if in.ex.Verbose {
				in.syncPC()
				in.solver.Push()
				if in.solver.Check() == Sat {
					in.snapshotTape()
					fmt.Printf("  ENGINE-ERROR-WITNESS %s dec=%v outs=%v\n", r.msg, decList(p.dec), in.renderOuts())
				}
				in.solver.Pop()
			}
		case targetPanic:
			p.status = "panic"
			p.statusMsg = in.panicString(r.v)
			if !p.replaying() {
				in.recordViolation("panic", "uncaught-panic", p.statusMsg, nil)
			}
		default:
			p.status = "engine-error"
			p.statusMsg = fmt.Sprintf("engine bug: %v", r)
		}
	}()
	in.initPackages(fn.Pkg)
	in.callSSA(nil, fn.Pos(), fn, nil, nil)
}

func (in *Interp) panicString(v Value) string {
	if itf, ok := v.(Iface); ok {
		if s, ok := itf.V.(string); ok {
			return s
		}
		if itf.T != nil {
			return "panic(" + itf.T.String() + ")"
		}
	}
	return "panic"
}

// SortedKeys helper for reports.
func SortedKeys(m map[string]bool) []string {
	ks := make([]string, 0, len(m))
	for k := range m {
		ks = append(ks, k)
	}
	sort.Strings(ks)
	return ks
}

// renderOuts renders the verifOut observations of this path under the model
// of the last violation.
func (in *Interp) renderOuts() []string {
	p := in.path
	var out []string
	memo := map[*Term]uint64{}
	for i, vals := range p.outVals {
		parts := []string{}
		if i < len(p.outs) {
			parts = append(parts, strings.SplitN(p.outs[i], " ", 2)[0])
		}
		for _, v := range vals {
			parts = append(parts, in.renderVal(v, memo))
		}
		out = append(out, strings.Join(parts, " "))
	}
	if len(out) > 40 {
		out = out[len(out)-40:]
	}
	return out
}

func (in *Interp) renderVal(v Value, memo map[*Term]uint64) (s string) {
	defer func() {
		if r := recover(); r != nil {
			s = "?"
		}
	}()
	if itf, ok := v.(Iface); ok {
		if itf.T == nil {
			return "nil"
		}
		v = itf.V
	}
	switch x := v.(type) {
	case *Term:
		val := in.tc.Eval(x, in.lastModel, memo)
		if x.W == 0 {
			return fmt.Sprint(val == 1)
		}
		return fmt.Sprint(val)
	case *SymStr:
		b := make([]byte, len(x.B))
		for i, t := range x.B {
			b[i] = byte(in.tc.Eval(t, in.lastModel, memo))
		}
		return fmt.Sprintf("%q", string(b))
	case string:
		return fmt.Sprintf("%q", x)
	case Slice:
		parts := []string{}
		for _, e := range x {
			parts = append(parts, in.renderVal(e, memo))
		}
		return "[" + strings.Join(parts, " ") + "]"
	}
	return in.outString(v)
}
