package sym

import (
	"bytes"
	"go/ast"
	"go/parser"
	"go/printer"
	"go/token"
	"os"
	"path/filepath"
	"strings"
)

// genConnCtor regenerates, from the current source of (*Server).Handle in
// p9/server.go, the constructor the harnesses use to build a connState
// (verifNewConn): the "cs := &connState{...}" statement and the assignments to
// fields of cs that follow it, up to the first other statement. A refactoring
// that changes how a connection is set up (field types, extra initialisation)
// is thereby picked up instead of breaking - or silently bypassing - the
// harnesses. If Handle no longer has that shape the hand-written fallback is
// emitted (and a note returned).
func genConnCtor(repo string) (src string, note string) {
	fallback := `package p9

// (fallback: Server.Handle did not have the expected shape)
func verifNewConn(s *Server) *connState {
	return &connState{
		server: s,
		fids:   make(map[fid]*fidRef),
		tags:   make(map[tag]chan struct{}),
	}
}
`
	path := filepath.Join(repo, "p9", "server.go")
	b, err := os.ReadFile(path)
	if err != nil {
		return fallback, "server.go unreadable"
	}
	fset := token.NewFileSet()
	f, err := parser.ParseFile(fset, path, b, 0)
	if err != nil {
		return fallback, "server.go does not parse"
	}
	for _, d := range f.Decls {
		fd, ok := d.(*ast.FuncDecl)
		if !ok || fd.Name.Name != "Handle" || fd.Recv == nil || len(fd.Recv.List) != 1 || fd.Body == nil {
			continue
		}
		if st, ok := fd.Recv.List[0].Type.(*ast.StarExpr); !ok || exprString(fset, st.X) != "Server" {
			continue
		}
		recv := "s"
		if len(fd.Recv.List[0].Names) == 1 {
			recv = fd.Recv.List[0].Names[0].Name
		}
		var decls []string
		for _, p := range fd.Type.Params.List {
			for _, n := range p.Names {
				decls = append(decls, "\tvar "+n.Name+" "+exprString(fset, p.Type)+"\n\t_ = "+n.Name+"\n")
			}
		}
		var stmts []string
		csName := ""
		for _, st := range fd.Body.List {
			as, ok := st.(*ast.AssignStmt)
			if csName == "" {
				if !ok || as.Tok != token.DEFINE || len(as.Lhs) != 1 || len(as.Rhs) != 1 {
					continue
				}
				u, ok := as.Rhs[0].(*ast.UnaryExpr)
				if !ok || u.Op != token.AND {
					continue
				}
				cl, ok := u.X.(*ast.CompositeLit)
				if !ok || exprString(fset, cl.Type) != "connState" {
					continue
				}
				csName = as.Lhs[0].(*ast.Ident).Name
				stmts = append(stmts, "\t"+nodeString(fset, st)+"\n")
				continue
			}
			// following assignments to fields of cs
			if !ok || len(as.Lhs) != 1 {
				break
			}
			sel, ok := as.Lhs[0].(*ast.SelectorExpr)
			if !ok {
				break
			}
			if id, ok := sel.X.(*ast.Ident); !ok || id.Name != csName {
				break
			}
			stmts = append(stmts, "\t"+nodeString(fset, st)+"\n")
		}
		if csName == "" {
			return fallback, "no connState literal in Server.Handle"
		}
		var sb strings.Builder
		sb.WriteString("package p9\n\n// generated from (*Server).Handle in p9/server.go\n\nimport (\n\t\"io\"\n\t\"sync\"\n)\n\nvar _ io.Reader\nvar _ sync.Mutex\n\n")
		sb.WriteString("func verifNewConn(" + recv + " *Server) *connState {\n")
		for _, d := range decls {
			sb.WriteString(d)
		}
		for _, s := range stmts {
			sb.WriteString(s)
		}
		sb.WriteString("\treturn " + csName + "\n}\n")
		return sb.String(), ""
	}
	return fallback, "Server.Handle not found"
}

func exprString(fset *token.FileSet, e ast.Expr) string { return nodeString(fset, e) }

func nodeString(fset *token.FileSet, n ast.Node) string {
	var buf bytes.Buffer
	printer.Fprint(&buf, fset, n)
	return buf.String()
}
