package sym

import (
	"fmt"
	"strings"
)

// Event is one entry of the synchronisation/monitor trace of a path.
type Event struct {
	Kind   string // acq rel rd wr rmw chan-send chan-recv chan-close wg-add wg-wait spawn user
	Obj    string
	Mode   string
	N      int64
	Self   bool
	Nested bool
	Args   []string
	Cell   int
	Val    string
	RF     int // read-from choice
}

func (e Event) String() string {
	s := e.Kind
	if e.Obj != "" {
		s += " " + e.Obj
	}
	if e.Mode != "" {
		s += " " + e.Mode
	}
	if len(e.Args) > 0 {
		s += " " + strings.Join(e.Args, ",")
	}
	if e.Self {
		s += " [self]"
	}
	return s
}

type threadCtx struct {
	held      map[*Value]string
	rdepth    map[*Value]int
	recvWaits bool
	trace     *ThreadTrace

	full         *threadCtxFull
	cands        map[string][]rfCand
	atomics      map[string]bool
	deltas       map[string][]int64
	seqs         map[string][]otherSeqs
	prevP        map[string]*Term // "cell|otherThread" -> last prefix index
	trVar        map[string]*Term // other thread -> trace selector
	muteCells    int
	foreignChans map[string]*Chan
	lastMapEv    *SEvent
	casFails     map[string]int
	maxRMW       map[string]int

	secCount map[string]int     // acquisitions of each mutex so far
	heldSec  map[string]lockRef // currently held: mutex name -> mode/section
	decided  map[string]bool    // "mutex|mySec|thread|theirSec" -> my section is AFTER theirs
	ownWrote map[string]bool    // "mutex|mySec|cell" -> I wrote the cell in that section
}

// ThreadTrace is defined in sched.go

func (in *Interp) event(e Event) {
	if in.param("trace_events", 0) == 0 && in.thread == nil {
		if e.Kind != "user" {
			return
		}
	}
	in.events = append(in.events, e)
}

func (in *Interp) objName(p *Value) string {
	if in.objNames == nil {
		in.objNames = map[*Value]string{}
	}
	if n, ok := in.objNames[p]; ok {
		return n
	}
	n := fmt.Sprintf("obj#%d", len(in.objNames)+1)
	in.objNames[p] = n
	return n
}

// cellEvent / mapEvent / chanEvent are hooks for the schedule layer.
func (in *Interp) cellEvent(p *Value, write bool) {
	if in.thread != nil {
		in.threadCellEvent(p, write, false)
	}
}
func (in *Interp) cellEventAtomic(p *Value, write bool) {
	if in.thread != nil {
		in.threadCellEvent(p, write, true)
	}
}
func (in *Interp) mapEvent(m *Map, kind string, key Value) {
	if in.thread != nil {
		in.threadMapEvent(m, kind, key)
	}
}
func (in *Interp) chanEvent(c *Chan, kind string) {
	if in.schedOn() {
		name, ok := in.thread.full.chans[c]
		if !ok {
			name = fmt.Sprintf("%s:ch%d", in.thread.full.name, c.ID)
		}
		in.sev(&SEvent{Kind: "chan-" + kind, Obj: name})
		return
	}
	if in.thread != nil || in.param("trace_events", 0) == 1 {
		in.event(Event{Kind: "chan-" + kind, Obj: fmt.Sprintf("chan#%d", c.ID)})
	}
}

func (in *Interp) atomicRMW(p *Value, op string, old, nv *Term) *Term {
	if in.thread != nil {
		return in.threadAtomicRMW(p, op, old, nv)
	}
	*p = nv
	return nv
}

func (in *Interp) addHarnessIntrinsics(m map[string]extFn) {
	tc := in.tc
	scalar := func(kind string, w int) extFn {
		return func(fr *frame, a []Value) Value { return in.freshScalar(kind, w) }
	}
	m["verif:verifNondetU8"] = scalar("u8", 8)
	m["verif:verifNondetU16"] = scalar("u16", 16)
	m["verif:verifNondetU32"] = scalar("u32", 32)
	m["verif:verifNondetU64"] = scalar("u64", 64)
	m["verif:verifNondetBool"] = scalar("bool", 0)
	m["verif:verifNondetBytes"] = func(fr *frame, a []Value) Value {
		n := int(in.concreteInt(a[0], "verifNondetBytes length"))
		s := make(Slice, n)
		for i, b := range in.freshBytes(n) {
			s[i] = b
		}
		return s
	}
	m["verif:verifNondetString"] = func(fr *frame, a []Value) Value {
		n := int(in.concreteInt(a[0], "verifNondetString length"))
		return mkStr(in.freshBytes(n))
	}
	// symbolic-length byte slice with unconstrained content (sizes only)
	m["verif:verifNondetBytesN"] = func(fr *frame, a []Value) Value {
		n := in.to64(a[0].(*Term), true)
		in.nextObjID++
		p := in.path
		p.nvars++
		mem := &SymMem{ID: in.nextObjID, Arr: tc.ArrayVar(fmt.Sprintf("i%d_mem", p.nvars))}
		return &SymSlice{Mem: mem, Off: tc.BV(64, 0), Len: n, Cap: n}
	}
	m["verif:verifChoice"] = func(fr *frame, a []Value) Value {
		n := int(in.concreteInt(a[0], "verifChoice bound"))
		return tc.BV(64, uint64(in.choice(n, "verifChoice")))
	}
	m["verif:verifAssume"] = func(fr *frame, a []Value) Value { in.assume(a[0].(*Term)); return nil }
	m["verif:verifAssert"] = func(fr *frame, a []Value) Value {
		in.assertProp(a[0].(*Term), a[1].(string))
		return nil
	}
	m["verif:verifReach"] = func(fr *frame, a []Value) Value { in.reach(a[0].(string)); return nil }
	m["verif:verifParam"] = func(fr *frame, a []Value) Value {
		def := int(in.concreteInt(a[1], "verifParam default"))
		return tc.BV(64, uint64(int64(in.param(a[0].(string), def))))
	}
	m["verif:verifOut"] = func(fr *frame, a []Value) Value {
		parts := []string{a[0].(string)}
		for _, v := range a[1].(Slice) {
			parts = append(parts, in.outString(v))
		}
		in.path.outs = append(in.path.outs, strings.Join(parts, " "))
		in.path.outVals = append(in.path.outVals, append([]Value(nil), a[1].(Slice)...))
		return nil
	}
	m["verif:verifEvent"] = func(fr *frame, a []Value) Value {
		e := Event{Kind: "user", Obj: a[0].(string)}
		for _, v := range a[1].(Slice) {
			e.Args = append(e.Args, in.outString(v))
		}
		in.events = append(in.events, e)
		if in.thread != nil {
			in.threadUserEvent(e)
		}
		return nil
	}
	m["verif:verifRunSpawned"] = func(fr *frame, a []Value) Value {
		n := 0
		for len(in.spawned) > 0 {
			s := in.spawned[0]
			in.spawned = in.spawned[1:]
			in.call(fr, fr.callPos, s.fn, s.args)
			n++
		}
		return tc.BV(64, uint64(n))
	}
	m["verif:verifSpawnedCount"] = func(fr *frame, a []Value) Value { return tc.BV(64, uint64(len(in.spawned))) }
	m["verif:verifAllocStart"] = func(fr *frame, a []Value) Value {
		in.allocs = nil
		in.path.allocHook = func(n *Term) { in.allocs = append(in.allocs, n) }
		return nil
	}
	m["verif:verifAllocAssertLE"] = func(fr *frame, a []Value) Value {
		lim := in.to64(a[0].(*Term), false)
		label := a[1].(string)
		c := tc.True
		for _, n := range in.allocs {
			c = tc.And(c, tc.Cmp(OpUle, n, lim))
		}
		in.assertProp(c, label)
		return nil
	}
	m["verif:verifAllocCount"] = func(fr *frame, a []Value) Value { return tc.BV(64, uint64(len(in.allocs))) }
	m["verif:verifIsSymbolicRun"] = func(fr *frame, a []Value) Value { return tc.True }
	m["verif:verifThread"] = func(fr *frame, a []Value) Value {
		in.declareThread(fr, a[0].(string), a[1])
		return nil
	}
	m["verif:verifThreadName"] = func(fr *frame, a []Value) Value {
		if in.schedOn() {
			return in.thread.full.name
		}
		return ""
	}
	m["verif:verifPtrID"] = func(fr *frame, a []Value) Value {
		// stable small integer identity for a pointer held in an interface
		itf := a[0].(Iface)
		if itf.T == nil {
			return tc.BV(64, 0)
		}
		p, ok := itf.V.(*Value)
		if !ok {
			return tc.BV(64, 0)
		}
		if in.ptrIDs == nil {
			in.ptrIDs = map[*Value]int{}
		}
		id, ok := in.ptrIDs[p]
		if !ok {
			id = len(in.ptrIDs) + 1
			in.ptrIDs[p] = id
		}
		return tc.BV(64, uint64(id))
	}
}

func (in *Interp) outString(v Value) string {
	if itf, ok := v.(Iface); ok {
		if itf.T == nil {
			return "nil"
		}
		v = itf.V
	}
	switch x := v.(type) {
	case *Term:
		if x.IsConst() {
			if x.W == 0 {
				return fmt.Sprint(x.K == 1)
			}
			return fmt.Sprint(x.K)
		}
		return "sym"
	case string:
		return x
	case *SymStr:
		return "symstr"
	case Slice:
		var sb strings.Builder
		sb.WriteByte('[')
		for i, e := range x {
			if i > 0 {
				sb.WriteByte(' ')
			}
			sb.WriteString(in.outString(e))
		}
		sb.WriteByte(']')
		return sb.String()
	}
	return in.valString(v)
}
