package sym

import (
	"fmt"
	"go/types"
)

// havoc fills the value at p (of static type t) with fresh symbolic content.
// Rule (mirrored by the native prelude with reflect): bool/integers -> fresh
// scalar; string -> sl fresh bytes; exported []byte -> pl fresh bytes; other
// slices -> ll havocked elements; structs recurse in field order; unexported
// []byte, pointers, interfaces, maps, chans, funcs are left alone.
func (in *Interp) havoc(p *Value, t types.Type, exported bool, sl, ll, pl int) {
	switch u := t.Underlying().(type) {
	case *types.Basic:
		switch {
		case u.Kind() == types.Bool:
			*p = in.freshScalar("bool", 0)
		case bvWidth(u) > 0:
			w := bvWidth(u)
			if n, ok := t.(*types.Named); ok && n.Obj().Name() == "fid" {
				// a fid travels as 4 bytes; values above 2^32-1 are outside the claim
				*p = in.tc.Zext(in.freshScalar("u32", 32), w)
				return
			}
			*p = in.freshScalar(fmt.Sprintf("u%d", w), w)
		case u.Kind() == types.String:
			*p = mkStr(in.freshBytes(sl))
		}
	case *types.Struct:
		s := (*p).(Struct)
		for i := 0; i < u.NumFields(); i++ {
			in.havoc(&s[i], u.Field(i).Type(), u.Field(i).Exported(), sl, ll, pl)
		}
	case *types.Slice:
		if widthOf(u.Elem()) == 8 {
			if !exported {
				return
			}
			s := make(Slice, pl)
			for i, b := range in.freshBytes(pl) {
				s[i] = b
			}
			*p = s
			return
		}
		s := make(Slice, ll)
		for i := range s {
			s[i] = in.zero(u.Elem())
			in.havoc(&s[i], u.Elem(), true, sl, ll, pl)
		}
		*p = s
	case *types.Array:
		a := (*p).(Array)
		for i := range a {
			in.havoc(&a[i], u.Elem(), true, sl, ll, pl)
		}
	}
}

// deepEqual compares two values of static type t (same rule set as havoc;
// nil and empty slices are equal).
func (in *Interp) deepEqual(x, y Value, t types.Type, exported bool) *Term {
	tc := in.tc
	switch u := t.Underlying().(type) {
	case *types.Basic:
		return in.equals(x, y)
	case *types.Struct:
		xs, ys := x.(Struct), y.(Struct)
		r := tc.True
		for i := 0; i < u.NumFields(); i++ {
			r = tc.And(r, in.deepEqual(xs[i], ys[i], u.Field(i).Type(), u.Field(i).Exported()))
		}
		return r
	case *types.Slice:
		if widthOf(u.Elem()) == 8 && !exported {
			return tc.True
		}
		xs, ok1 := x.(Slice)
		ys, ok2 := y.(Slice)
		if !ok1 || !ok2 {
			panic(engineErr{"deepEqual on symbolic-length slice"})
		}
		if len(xs) != len(ys) {
			return tc.False
		}
		r := tc.True
		for i := range xs {
			r = tc.And(r, in.deepEqual(xs[i], ys[i], u.Elem(), true))
		}
		return r
	case *types.Array:
		xs, ys := x.(Array), y.(Array)
		r := tc.True
		for i := range xs {
			r = tc.And(r, in.deepEqual(xs[i], ys[i], u.Elem(), true))
		}
		return r
	}
	return tc.True
}

func (in *Interp) addHavocIntrinsics(m map[string]extFn) {
	m["verif:verifHavoc"] = func(fr *frame, a []Value) Value {
		itf := a[0].(Iface)
		pt, ok := itf.T.Underlying().(*types.Pointer)
		if !ok {
			panic(engineErr{"verifHavoc: want pointer"})
		}
		sl := int(in.concreteInt(a[1], "verifHavoc strLen"))
		ll := int(in.concreteInt(a[2], "verifHavoc listLen"))
		pl := int(in.concreteInt(a[3], "verifHavoc payloadLen"))
		in.havoc(itf.V.(*Value), pt.Elem(), true, sl, ll, pl)
		return nil
	}
	m["verif:verifEqual"] = func(fr *frame, a []Value) Value {
		x, y := a[0].(Iface), a[1].(Iface)
		if x.T == nil || y.T == nil {
			return in.tc.Bool(x.T == nil && y.T == nil)
		}
		if !types.Identical(x.T, y.T) {
			return in.tc.False
		}
		if pt, ok := x.T.Underlying().(*types.Pointer); ok {
			return in.deepEqual(*x.V.(*Value), *y.V.(*Value), pt.Elem(), true)
		}
		return in.deepEqual(x.V, y.V, x.T, true)
	}
}
