package sym

import (
	"fmt"
	"go/constant"
	"go/token"
	"go/types"
	"math/rand"
	"os"
	"strings"
	"sync"

	"golang.org/x/tools/go/ssa"
)

// ---------- control-flow panics used by the engine ----------

// targetPanic is a panic of the interpreted program.
type targetPanic struct{ v Value }

// engineErr aborts the path: the engine cannot interpret something.
type engineErr struct{ msg string }

// pathEnd terminates the path normally for a non-error reason.
type pathEnd struct {
	status string // "assume", "blocked", "unwind", "deadlock", "stop"
	msg    string
}

func runtimeError(msg string) targetPanic {
	return targetPanic{Iface{T: types.Typ[types.String], V: "runtime error: " + msg}}
}

type extFn func(fr *frame, args []Value) Value

type deferred struct {
	fn    Value
	args  []Value
	instr *ssa.Defer
	tail  *deferred
}

type frame struct {
	in               *Interp
	caller           *frame
	fn               *ssa.Function
	block, prevBlock *ssa.BasicBlock
	env              map[ssa.Value]Value
	locals           []Value
	defers           *deferred
	result           Value
	panicking        bool
	panic            interface{}
	callPos          token.Pos
	symIter          map[*ssa.If]int
	skipPhi          bool
	mergedReturn     bool
}

// fork profile (debugging aid, VERIF_FORK_PROFILE=1): forking branch sites
var forkProfile map[string]int
var forkMu sync.Mutex

func noteFork(site string) {
	forkMu.Lock()
	forkProfile[site]++
	forkMu.Unlock()
}

// Interp interprets one path of one harness.
type Interp struct {
	prog    *ssa.Program
	tc      *TermCtx
	globals map[*ssa.Global]*Value
	ext     map[string]extFn
	extFor  map[*ssa.Function]extFn
	redir   map[string]*ssa.Function // harness-defined interceptions

	nextObjID int
	steps     int64
	maxSteps  int64
	depth     int

	path   *Path
	cur    *frame // frame of the instruction being executed
	ex     *Explorer
	solver *Solver

	rand       *rand.Rand // non-nil: random-concrete mode (translator validation)
	nthreads   int
	schedRoots []Value
	lastModel  map[string]uint64
	objNames   map[*Value]string
	ptrIDs     map[*Value]int
	allocs     []*Term

	initDone map[*ssa.Package]bool
	lenient  int // >0 while running std package initialisers leniently

	funcsSeen map[*ssa.Function]bool
	stubsUsed map[string]bool

	spawned []spawnRec
	events  []Event
	thread  *threadCtx
	params  map[string]int

	pdom map[*ssa.Function]map[*ssa.BasicBlock]*ssa.BasicBlock
}

type spawnRec struct {
	fn   Value
	args []Value
}

func (fr *frame) get(key ssa.Value) Value {
	switch key := key.(type) {
	case nil:
		return nil
	case *ssa.Function, *ssa.Builtin:
		return key
	case *ssa.Const:
		return fr.in.constValue(key)
	case *ssa.Global:
		if r, ok := fr.in.globals[key]; ok {
			return r
		}
		return fr.in.globalAddr(key)
	}
	if r, ok := fr.env[key]; ok {
		return r
	}
	panic(engineErr{fmt.Sprintf("get: no value for %T: %v in %s", key, key.Name(), fr.fn)})
}

func (in *Interp) globalAddr(g *ssa.Global) *Value {
	if r, ok := in.globals[g]; ok {
		return r
	}
	v := new(Value)
	*v = in.zero(deref(g.Type()))
	in.globals[g] = v
	return v
}

func deref(t types.Type) types.Type {
	if p, ok := t.Underlying().(*types.Pointer); ok {
		return p.Elem()
	}
	panic(fmt.Sprintf("deref of non-pointer %v", t))
}

func (in *Interp) constValue(c *ssa.Const) Value {
	t := c.Type()
	if c.Value == nil {
		return in.zero(t)
	}
	if b, ok := t.Underlying().(*types.Basic); ok {
		switch {
		case b.Info()&types.IsBoolean != 0:
			return in.tc.Bool(constant.BoolVal(c.Value))
		case b.Info()&types.IsInteger != 0:
			w := bvWidth(b)
			if isSigned(b) {
				return in.tc.BV(w, uint64(c.Int64()))
			}
			return in.tc.BV(w, c.Uint64())
		case b.Info()&types.IsString != 0:
			if c.Value.Kind() == constant.String {
				return constant.StringVal(c.Value)
			}
			return string(rune(c.Int64()))
		case b.Info()&types.IsFloat != 0:
			return c.Float64()
		}
	}
	if _, ok := t.Underlying().(*types.TypeParam); ok {
		panic(engineErr{"const of type param"})
	}
	panic(engineErr{fmt.Sprintf("constValue: unsupported %v : %v", c, t)})
}

// ---------- calls ----------

func (in *Interp) prepareCall(fr *frame, call *ssa.CallCommon) (fn Value, args []Value) {
	v := fr.get(call.Value)
	if call.Method == nil {
		fn = v
	} else {
		recv, ok := v.(Iface)
		if !ok {
			panic(engineErr{fmt.Sprintf("invoke on non-interface %T", v)})
		}
		if recv.T == nil {
			panic(runtimeError("invalid memory address or nil pointer dereference (method on nil interface)"))
		}
		f := in.prog.LookupMethod(recv.T, call.Method.Pkg(), call.Method.Name())
		if f == nil {
			panic(engineErr{fmt.Sprintf("no method %s for %v", call.Method, recv.T)})
		}
		fn = f
		args = append(args, recv.V)
	}
	for _, a := range call.Args {
		args = append(args, fr.get(a))
	}
	return
}

func (in *Interp) call(caller *frame, pos token.Pos, fn Value, args []Value) Value {
	switch fn := fn.(type) {
	case *ssa.Function:
		if fn == nil {
			panic(runtimeError("call of nil function"))
		}
		return in.callSSA(caller, pos, fn, args, nil)
	case *Closure:
		if fn == nil {
			panic(runtimeError("call of nil function"))
		}
		return in.callSSA(caller, pos, fn.Fn, args, fn.Env)
	case *ssa.Builtin:
		return in.callBuiltin(caller, pos, fn, args)
	}
	panic(engineErr{fmt.Sprintf("cannot call %T", fn)})
}

func (in *Interp) lookupExt(fn *ssa.Function) extFn {
	if e, ok := in.extFor[fn]; ok {
		return e
	}
	var e extFn
	name := fn.String()
	if fn.Blocks == nil && strings.HasPrefix(fn.Name(), "verif") {
		name = "verif:" + fn.Name()
	}
	if o := fn.Origin(); o != nil {
		// generic instance: match on the origin name too
		if x, ok := in.ext[o.String()]; ok {
			e = x
		}
	}
	if x, ok := in.ext[name]; ok {
		e = x
	}
	if e == nil {
		if tgt, ok := in.redir[name]; ok {
			e = func(fr *frame, args []Value) Value {
				return in.callSSA(fr.caller, fr.callPos, tgt, args, nil)
			}
		}
	}
	if e != nil {
		nm := name
		inner := e
		e = func(fr *frame, args []Value) Value {
			in.stubsUsed[nm] = true
			return inner(fr, args)
		}
	}
	in.extFor[fn] = e
	return e
}

func (in *Interp) callSSA(caller *frame, pos token.Pos, fn *ssa.Function, args []Value, env []Value) Value {
	fr := &frame{in: in, caller: caller, fn: fn, callPos: pos}
	if ext := in.lookupExt(fn); ext != nil {
		return ext(fr, args)
	}
	if isPkgInit(fn) {
		if in.initDone[fn.Pkg] {
			return nil
		}
		in.initDone[fn.Pkg] = true
		if os.Getenv("VERIF_INIT_DEBUG") != "" {
			before := in.steps
			pp := fn.Pkg.Pkg.Path()
			defer func() { fmt.Printf("[init-pkg] %s cumulative %d\n", pp, in.steps-before) }()
		}
		switch initMode(fn.Pkg.Pkg.Path()) {
		case 0:
			return nil
		case 1:
			in.lenient++
			defer func() { in.lenient-- }()
		case 2:
			if in.lenient > 0 {
				saved := in.lenient
				in.lenient = 0
				defer func() { in.lenient = saved }()
			}
		}
	}
	if fn.Blocks == nil {
		if in.lenient > 0 {
			return in.zeroResults(fn.Signature)
		}
		panic(engineErr{"no code for function: " + fn.String()})
	}
	if fn.TypeParams().Len() > 0 && len(fn.TypeArgs()) == 0 {
		panic(engineErr{"uninstantiated generic: " + fn.String()})
	}
	in.depth++
	if in.depth > 400 {
		panic(engineErr{"call depth exceeded in " + fn.String()})
	}
	defer func() { in.depth-- }()
	if !in.funcsSeen[fn] {
		in.funcsSeen[fn] = true
	}
	fr.env = make(map[ssa.Value]Value, 16)
	fr.block = fn.Blocks[0]
	fr.locals = make([]Value, len(fn.Locals))
	for i, l := range fn.Locals {
		fr.locals[i] = in.zero(deref(l.Type()))
		fr.env[l] = &fr.locals[i]
	}
	for i, p := range fn.Params {
		fr.env[p] = args[i]
	}
	for i, fv := range fn.FreeVars {
		fr.env[fv] = env[i]
	}
	for fr.block != nil {
		in.runFrame(fr)
	}
	return fr.result
}

func (in *Interp) zeroResults(sig *types.Signature) Value {
	res := sig.Results()
	switch res.Len() {
	case 0:
		return nil
	case 1:
		return in.zero(res.At(0).Type())
	}
	tu := make(Tuple, res.Len())
	for i := range tu {
		tu[i] = in.zero(res.At(i).Type())
	}
	return tu
}

func (in *Interp) runFrame(fr *frame) {
	defer func() {
		if fr.block == nil {
			return // normal return
		}
		r := recover()
		switch r.(type) {
		case engineErr, pathEnd:
			panic(r)
		case targetPanic:
		default:
			// a bug in the engine itself (Go runtime panic): surface as engine error
			panic(engineErr{fmt.Sprintf("engine panic in %s: %v", fr.fn, r)})
		}
		fr.panicking = true
		fr.panic = r
		fr.runDefers()
		fr.block = fr.fn.Recover
	}()
	for {
		for _, instr := range fr.block.Instrs {
			in.steps++
			if in.steps > in.maxSteps {
				panic(pathEnd{"steps", "step budget exceeded"})
			}
			var k continuation
			if in.lenient > 0 && isPkgInit(fr.fn) {
				k = in.visitLenient(fr, instr)
			} else {
				k = in.visitInstr(fr, instr)
			}
			switch k {
			case kReturn:
				return
			case kNext:
			case kJump:
				goto next
			}
		}
	next:
		if fr.skipPhi {
			fr.skipPhi = false
		} else {
			in.enterBlock(fr)
		}
	}
}

// visitLenient executes an instruction of a leniently initialised std
// package: anything the engine cannot interpret yields a zero value.
func (in *Interp) visitLenient(fr *frame, instr ssa.Instruction) (k continuation) {
	defer func() {
		if r := recover(); r != nil {
			switch r.(type) {
			case engineErr, targetPanic:
				if v, ok := instr.(ssa.Value); ok {
					func() {
						defer func() { recover() }()
						fr.env[v] = in.zero(v.Type())
					}()
				}
				k = kNext
			default:
				panic(r)
			}
		}
	}()
	return in.visitInstr(fr, instr)
}

type continuation int

const (
	kNext continuation = iota
	kReturn
	kJump
)

// enterBlock evaluates the phis of fr.block given fr.prevBlock.
func (in *Interp) enterBlock(fr *frame) {
	b := fr.block
	var idx = -1
	for i, p := range b.Preds {
		if p == fr.prevBlock {
			idx = i
			break
		}
	}
	var vals []Value
	var phis []*ssa.Phi
	for _, instr := range b.Instrs {
		phi, ok := instr.(*ssa.Phi)
		if !ok {
			break
		}
		phis = append(phis, phi)
		vals = append(vals, fr.get(phi.Edges[idx]))
	}
	for i, phi := range phis {
		fr.env[phi] = vals[i]
	}
}

func (fr *frame) runDefer(d *deferred) {
	var ok bool
	defer func() {
		if !ok {
			r := recover()
			switch r.(type) {
			case engineErr, pathEnd:
				panic(r)
			case targetPanic:
			default:
				panic(engineErr{fmt.Sprintf("engine panic in deferred call: %v", r)})
			}
			fr.panicking = true
			fr.panic = r
		}
	}()
	fr.in.call(fr, d.instr.Pos(), d.fn, d.args)
	ok = true
}

func (fr *frame) runDefers() {
	for d := fr.defers; d != nil; d = d.tail {
		fr.runDefer(d)
	}
	fr.defers = nil
	if fr.panicking {
		panic(fr.panic)
	}
}

// ---------- instructions ----------

func (in *Interp) curFn() string {
	if in.cur == nil {
		return "?"
	}
	s := in.cur.fn.String()
	if c := in.cur.caller; c != nil {
		s += " <- " + c.fn.String()
		if c.caller != nil {
			s += " <- " + c.caller.fn.String()
		}
	}
	return s
}

func (in *Interp) visitInstr(fr *frame, instr ssa.Instruction) continuation {
	in.cur = fr
	switch instr := instr.(type) {
	case *ssa.DebugRef:

	case *ssa.Phi:
		// handled in enterBlock

	case *ssa.UnOp:
		fr.env[instr] = in.unop(fr, instr, fr.get(instr.X))

	case *ssa.BinOp:
		fr.env[instr] = in.binop(instr.Op, instr.X.Type(), fr.get(instr.X), fr.get(instr.Y))

	case *ssa.Call:
		fn, args := in.prepareCall(fr, &instr.Call)
		fr.env[instr] = in.call(fr, instr.Pos(), fn, args)

	case *ssa.ChangeInterface:
		fr.env[instr] = fr.get(instr.X)

	case *ssa.ChangeType:
		fr.env[instr] = fr.get(instr.X)

	case *ssa.Convert:
		fr.env[instr] = in.conv(instr.Type(), instr.X.Type(), fr.get(instr.X))

	case *ssa.MultiConvert:
		fr.env[instr] = in.conv(instr.Type(), instr.X.Type(), fr.get(instr.X))

	case *ssa.SliceToArrayPointer:
		x := fr.get(instr.X).(Slice)
		n := int(deref(instr.Type()).Underlying().(*types.Array).Len())
		if len(x) < n {
			panic(runtimeError("cannot convert slice to array pointer: short"))
		}
		// No faithful aliasing representation for this; unsupported.
		panic(engineErr{"SliceToArrayPointer unsupported"})

	case *ssa.MakeInterface:
		fr.env[instr] = Iface{T: instr.X.Type(), V: fr.get(instr.X)}

	case *ssa.Extract:
		fr.env[instr] = fr.get(instr.Tuple).(Tuple)[instr.Index]

	case *ssa.Slice:
		fr.env[instr] = in.sliceOp(instr, fr.get(instr.X), fr.get(instr.Low), fr.get(instr.High), fr.get(instr.Max))

	case *ssa.Return:
		switch len(instr.Results) {
		case 0:
		case 1:
			fr.result = fr.get(instr.Results[0])
		default:
			res := make(Tuple, len(instr.Results))
			for i, r := range instr.Results {
				res[i] = fr.get(r)
			}
			fr.result = res
		}
		fr.block = nil
		return kReturn

	case *ssa.RunDefers:
		fr.runDefers()

	case *ssa.Panic:
		panic(targetPanic{fr.get(instr.X)})

	case *ssa.Send:
		in.chanSend(fr.get(instr.Chan).(*Chan), fr.get(instr.X))

	case *ssa.Store:
		in.store(fr.get(instr.Addr), fr.get(instr.Val))

	case *ssa.If:
		c := fr.get(instr.Cond).(*Term)
		succ := 1
		if c.IsConst() {
			if c.IsTrue() {
				succ = 0
			}
		} else {
			if in.tryMerge(fr, instr, c) {
				if fr.mergedReturn {
					fr.mergedReturn = false
					return kReturn
				}
				return kJump
			}
			// unwinding guard on symbolic loop conditions
			if fr.symIter == nil {
				fr.symIter = map[*ssa.If]int{}
			}
			fr.symIter[instr]++
			if lim := in.param("unwind", 64); fr.symIter[instr] > lim {
				panic(pathEnd{"unwind", fmt.Sprintf("symbolic branch in %s at %s taken more than %d times", fr.fn, in.prog.Fset.Position(instr.Pos()), lim)})
			}
			nd := in.ex.pushes
			if in.branch(c) {
				succ = 0
			}
			if forkProfile != nil && in.ex.pushes > nd {
				noteFork(fmt.Sprintf("%s %s", fr.fn, in.prog.Fset.Position(instr.Cond.Pos())))
			}
		}
		fr.prevBlock, fr.block = fr.block, fr.block.Succs[succ]
		return kJump

	case *ssa.Jump:
		fr.prevBlock, fr.block = fr.block, fr.block.Succs[0]
		return kJump

	case *ssa.Defer:
		fn, args := in.prepareCall(fr, &instr.Call)
		fr.defers = &deferred{fn: fn, args: args, instr: instr, tail: fr.defers}

	case *ssa.Go:
		fn, args := in.prepareCall(fr, &instr.Call)
		in.spawned = append(in.spawned, spawnRec{fn, args})
		in.event(Event{Kind: "spawn"})

	case *ssa.MakeChan:
		sz := in.concreteInt(fr.get(instr.Size), "chan size")
		in.nextObjID++
		fr.env[instr] = &Chan{ID: in.nextObjID, Cap: int(sz), Elem: instr.Type().Underlying().(*types.Chan).Elem()}

	case *ssa.Alloc:
		var addr *Value
		if instr.Heap {
			addr = new(Value)
			fr.env[instr] = addr
		} else {
			addr = fr.env[instr].(*Value)
		}
		*addr = in.zero(deref(instr.Type()))

	case *ssa.MakeSlice:
		fr.env[instr] = in.makeSlice(instr.Type(), fr.get(instr.Len), fr.get(instr.Cap))

	case *ssa.MakeMap:
		fr.env[instr] = in.newMap()

	case *ssa.Range:
		x := fr.get(instr.X)
		switch x := x.(type) {
		case *Map:
			in.mapEvent(x, "range", nil)
			fr.env[instr] = &mapIter{ents: x.Entries()}
		case string, *SymStr:
			fr.env[instr] = &strIter{b: in.strBytes(x)}
		default:
			panic(engineErr{fmt.Sprintf("range over %T", x)})
		}

	case *ssa.Next:
		fr.env[instr] = fr.get(instr.Iter).(iter).next(in)

	case *ssa.FieldAddr:
		p, ok := fr.get(instr.X).(*Value)
		if !ok {
			panic(engineErr{fmt.Sprintf("FieldAddr on %T", fr.get(instr.X))})
		}
		if p == nil {
			panic(runtimeError("invalid memory address or nil pointer dereference"))
		}
		fr.env[instr] = &(*p).(Struct)[instr.Field]

	case *ssa.Field:
		fr.env[instr] = copyVal(fr.get(instr.X).(Struct)[instr.Field])

	case *ssa.IndexAddr:
		fr.env[instr] = in.indexAddr(fr.get(instr.X), fr.get(instr.Index), instr.Index.Type())

	case *ssa.Index:
		x := fr.get(instr.X)
		idx := fr.get(instr.Index).(*Term)
		switch x := x.(type) {
		case Array:
			i := in.boundedIndex(idx, len(x), instr.Index.Type())
			fr.env[instr] = copyVal(x[i])
		case string, *SymStr:
			b := in.strBytes(x)
			i := in.boundedIndex(idx, len(b), instr.Index.Type())
			fr.env[instr] = b[i]
		default:
			panic(engineErr{fmt.Sprintf("Index on %T", x)})
		}

	case *ssa.Lookup:
		fr.env[instr] = in.lookup(instr, fr.get(instr.X), fr.get(instr.Index))

	case *ssa.MapUpdate:
		m := fr.get(instr.Map).(*Map)
		k := fr.get(instr.Key)
		in.mapEvent(m, "wr", k)
		if in.thread != nil {
			in.schedMapWrite(fr.get(instr.Value), false)
		}
		in.mapInsert(m, k, copyVal(fr.get(instr.Value)))

	case *ssa.TypeAssert:
		fr.env[instr] = in.typeAssert(instr, fr.get(instr.X).(Iface))

	case *ssa.MakeClosure:
		var bindings []Value
		for _, b := range instr.Bindings {
			bindings = append(bindings, fr.get(b))
		}
		fr.env[instr] = &Closure{instr.Fn.(*ssa.Function), bindings}

	case *ssa.Select:
		fr.env[instr] = in.selectOp(fr, instr)

	default:
		panic(engineErr{fmt.Sprintf("unexpected instruction: %T", instr)})
	}
	return kNext
}

// concreteInt extracts a concrete integer, concretising by forking if needed.
func (in *Interp) concreteInt(v Value, what string) int64 {
	t := v.(*Term)
	if t.IsConst() {
		return t.Int64()
	}
	return in.concretize(t, what)
}

// boundedIndex checks 0 <= idx < n (forking into a panic path if it can fail)
// and returns a concrete index (forking over values if idx is symbolic).
func (in *Interp) boundedIndex(idx *Term, n int, ityp types.Type) int {
	if idx.IsConst() {
		var i int64
		if isSigned(ityp) {
			i = idx.Int64()
		} else {
			i = int64(idx.K)
			if idx.K > 1<<62 {
				i = -1
			}
		}
		if i < 0 || i >= int64(n) {
			panic(runtimeError(fmt.Sprintf("index out of range [%d] with length %d", i, n)))
		}
		return int(i)
	}
	idx = in.to64(idx, isSigned(ityp))
	inRange := in.tc.Cmp(OpUlt, idx, in.tc.BV(64, uint64(n)))
	if n == 0 || !in.branch(inRange) {
		panic(runtimeError(fmt.Sprintf("index out of range [sym] with length %d", n)))
	}
	for k := 0; k < n-1; k++ {
		if in.branch(in.tc.Eq(idx, in.tc.BV(64, uint64(k)))) {
			return k
		}
	}
	return n - 1
}

func (in *Interp) indexAddr(x Value, idxv Value, ityp types.Type) Value {
	idx := idxv.(*Term)
	switch x := x.(type) {
	case Slice:
		i := in.boundedIndex(idx, len(x), ityp)
		return &x[i]
	case *Value:
		if x == nil {
			panic(runtimeError("invalid memory address or nil pointer dereference"))
		}
		a := (*x).(Array)
		i := in.boundedIndex(idx, len(a), ityp)
		return &a[i]
	case *SymSlice:
		if x == nil {
			panic(runtimeError("index out of range [0] with length 0"))
		}
		i64 := in.to64(idx, isSigned(ityp))
		in.check(in.tc.Cmp(OpUlt, i64, x.Len), "index out of range (symbolic slice)")
		return SymPtr{Mem: x.Mem, Idx: in.tc.Bin(OpAdd, x.Off, i64)}
	}
	panic(engineErr{fmt.Sprintf("IndexAddr on %T", x)})
}

// SymPtr addresses one byte of a SymMem.
type SymPtr struct {
	Mem *SymMem
	Idx *Term
}

// check forks into a runtime panic if cond can be false.
func (in *Interp) check(cond *Term, msg string) {
	if cond.IsConst() {
		if cond.IsTrue() {
			return
		}
		panic(runtimeError(msg))
	}
	if !in.branch(cond) {
		panic(runtimeError(msg))
	}
}

func (in *Interp) to64(t *Term, signed bool) *Term {
	if t.W == 64 {
		return t
	}
	if signed {
		return in.tc.Sext(t, 64)
	}
	return in.tc.Zext(t, 64)
}

func (in *Interp) load(addr Value) Value {
	switch p := addr.(type) {
	case *Value:
		if p == nil {
			panic(runtimeError("invalid memory address or nil pointer dereference"))
		}
		in.cellEvent(p, false)
		if in.thread != nil {
			if v, ok := in.schedLoad(p); ok {
				return copyVal(v)
			}
		}
		return copyVal(*p)
	case SymPtr:
		return in.tc.Select(p.Mem.Arr, p.Idx)
	}
	panic(engineErr{fmt.Sprintf("load from %T", addr)})
}

func (in *Interp) store(addr Value, v Value) {
	switch p := addr.(type) {
	case *Value:
		if p == nil {
			panic(runtimeError("invalid memory address or nil pointer dereference"))
		}
		in.cellEvent(p, true)
		if in.thread != nil {
			in.schedStoreValue(p, v)
		}
		assignCell(p, v)
		return
	case SymPtr:
		p.Mem.Arr = in.tc.Store(p.Mem.Arr, p.Idx, v.(*Term))
		return
	}
	panic(engineErr{fmt.Sprintf("store to %T", addr)})
}

// assignCell stores v into the cell, keeping the identity of the field and
// element cells of aggregates (pointers to fields taken before a whole-struct
// store stay valid, as in real memory).
func assignCell(p *Value, v Value) {
	switch src := v.(type) {
	case Struct:
		if dst, ok := (*p).(Struct); ok && len(dst) == len(src) {
			for i := range src {
				assignCell(&dst[i], src[i])
			}
			return
		}
	case Array:
		if dst, ok := (*p).(Array); ok && len(dst) == len(src) {
			for i := range src {
				assignCell(&dst[i], src[i])
			}
			return
		}
	}
	*p = copyVal(v)
}

func (in *Interp) unop(fr *frame, instr *ssa.UnOp, x Value) Value {
	switch instr.Op {
	case token.ARROW:
		v, ok := in.chanRecv(x.(*Chan))
		if v == nil {
			v = in.zero(instr.X.Type().Underlying().(*types.Chan).Elem())
		}
		if instr.CommaOk {
			return Tuple{v, in.tc.Bool(ok)}
		}
		return v
	case token.MUL:
		return in.load(x)
	case token.NOT:
		return in.tc.Not(x.(*Term))
	case token.SUB:
		switch x := x.(type) {
		case *Term:
			return in.tc.Neg(x)
		case float64:
			return -x
		}
	case token.XOR:
		return in.tc.BvNot(x.(*Term))
	}
	panic(engineErr{fmt.Sprintf("unop %v on %T", instr.Op, x)})
}

func (in *Interp) binop(op token.Token, t types.Type, x, y Value) Value {
	tc := in.tc
	switch x := x.(type) {
	case *Term:
		yt, ok := y.(*Term)
		if !ok {
			break
		}
		if x.W == 0 {
			switch op {
			case token.EQL:
				return tc.Eq(x, yt)
			case token.NEQ:
				return tc.Not(tc.Eq(x, yt))
			case token.AND, token.LAND:
				return tc.And(x, yt)
			case token.OR, token.LOR:
				return tc.Or(x, yt)
			}
			break
		}
		signed := isSigned(t)
		switch op {
		case token.ADD:
			return tc.Bin(OpAdd, x, yt)
		case token.SUB:
			return tc.Bin(OpSub, x, yt)
		case token.MUL:
			return tc.Bin(OpMul, x, yt)
		case token.QUO, token.REM:
			in.check(tc.Not(tc.Eq(yt, tc.BV(yt.W, 0))), "integer divide by zero")
			var o Op
			switch {
			case op == token.QUO && signed:
				o = OpSdiv
			case op == token.QUO:
				o = OpUdiv
			case signed:
				o = OpSrem
			default:
				o = OpUrem
			}
			return tc.Bin(o, x, yt)
		case token.AND:
			return tc.Bin(OpBvAnd, x, yt)
		case token.OR:
			return tc.Bin(OpBvOr, x, yt)
		case token.XOR:
			return tc.Bin(OpBvXor, x, yt)
		case token.AND_NOT:
			return tc.Bin(OpBvAnd, x, tc.BvNot(yt))
		case token.SHL, token.SHR:
			return in.shift(op, signed, x, yt)
		case token.EQL:
			return tc.Eq(x, yt)
		case token.NEQ:
			return tc.Not(tc.Eq(x, yt))
		case token.LSS:
			if signed {
				return tc.Cmp(OpSlt, x, yt)
			}
			return tc.Cmp(OpUlt, x, yt)
		case token.LEQ:
			if signed {
				return tc.Cmp(OpSle, x, yt)
			}
			return tc.Cmp(OpUle, x, yt)
		case token.GTR:
			if signed {
				return tc.Cmp(OpSlt, yt, x)
			}
			return tc.Cmp(OpUlt, yt, x)
		case token.GEQ:
			if signed {
				return tc.Cmp(OpSle, yt, x)
			}
			return tc.Cmp(OpUle, yt, x)
		}
	case float64:
		yf, ok := y.(float64)
		if !ok {
			break
		}
		switch op {
		case token.ADD:
			return x + yf
		case token.SUB:
			return x - yf
		case token.MUL:
			return x * yf
		case token.QUO:
			return x / yf
		case token.EQL:
			return tc.Bool(x == yf)
		case token.NEQ:
			return tc.Bool(x != yf)
		case token.LSS:
			return tc.Bool(x < yf)
		case token.LEQ:
			return tc.Bool(x <= yf)
		case token.GTR:
			return tc.Bool(x > yf)
		case token.GEQ:
			return tc.Bool(x >= yf)
		}
	case string, *SymStr:
		switch op {
		case token.ADD:
			return mkStr(append(append([]*Term{}, in.strBytes(x)...), in.strBytes(y)...))
		case token.EQL:
			return in.strEq(x, y)
		case token.NEQ:
			return tc.Not(in.strEq(x, y))
		case token.LSS:
			return in.strLess(x, y)
		case token.GTR:
			return in.strLess(y, x)
		case token.LEQ:
			return tc.Not(in.strLess(y, x))
		case token.GEQ:
			return tc.Not(in.strLess(x, y))
		}
	}
	switch op {
	case token.EQL:
		return in.equals(x, y)
	case token.NEQ:
		return tc.Not(in.equals(x, y))
	}
	panic(engineErr{fmt.Sprintf("binop %v on %T, %T", op, x, y)})
}

func (in *Interp) shift(op token.Token, signed bool, x, y *Term) *Term {
	tc := in.tc
	// Note: a negative signed shift count panics in Go; counts in this code
	// base are unsigned or constant, so treat y as unsigned.
	var yy *Term
	var big *Term = tc.False
	switch {
	case y.W == x.W:
		yy = y
	case y.W < x.W:
		yy = tc.Zext(y, x.W)
	default:
		big = tc.Cmp(OpUle, tc.BV(y.W, uint64(x.W)), y)
		yy = tc.Extract(y, x.W-1, 0)
	}
	var r, over *Term
	switch {
	case op == token.SHL:
		r = tc.Bin(OpShl, x, yy)
		over = tc.BV(x.W, 0)
	case signed:
		r = tc.Bin(OpAshr, x, yy)
		over = tc.Bin(OpAshr, x, tc.BV(x.W, uint64(x.W-1)))
	default:
		r = tc.Bin(OpLshr, x, yy)
		over = tc.BV(x.W, 0)
	}
	return tc.Ite(big, over, r)
}

func (in *Interp) conv(tDst, tSrc types.Type, x Value) Value {
	ut, us := tDst.Underlying(), tSrc.Underlying()
	switch ut := ut.(type) {
	case *types.Basic:
		if w := bvWidth(ut); w > 0 {
			switch x := x.(type) {
			case *Term:
				if x.W == 0 {
					break
				}
				if w <= x.W {
					return in.tc.Extract(x, w-1, 0)
				}
				if isSigned(us) {
					return in.tc.Sext(x, w)
				}
				return in.tc.Zext(x, w)
			case float64:
				if isSigned(ut) {
					return in.tc.BV(w, uint64(int64(x)))
				}
				return in.tc.BV(w, uint64(x))
			case UnsafePtr:
				// uintptr(unsafe.Pointer(p)): kept opaque, only good for being
				// handed to a modelled system call
				return x
			}
		}
		switch ut.Kind() {
		case types.Float32, types.Float64:
			switch x := x.(type) {
			case float64:
				if ut.Kind() == types.Float32 {
					return float64(float32(x))
				}
				return x
			case *Term:
				if !x.IsConst() {
					panic(engineErr{"float conversion of symbolic integer"})
				}
				if isSigned(us) {
					return float64(x.Int64())
				}
				return float64(x.K)
			}
		case types.String:
			switch x := x.(type) {
			case string, *SymStr:
				return x
			case Slice:
				// []byte or []rune -> string
				if e, ok := us.(*types.Slice); ok {
					if widthOf(e.Elem()) == 8 {
						b := make([]*Term, len(x))
						for i, v := range x {
							b[i] = v.(*Term)
						}
						return mkStr(b)
					}
					var sb strings.Builder
					for _, v := range x {
						t := v.(*Term)
						if !t.IsConst() {
							panic(engineErr{"string([]rune) with symbolic rune"})
						}
						sb.WriteRune(rune(t.Int64()))
					}
					return sb.String()
				}
			case *SymSlice:
				n := in.concreteInt(x.Len, "string(symbolic-length bytes)")
				b := make([]*Term, n)
				for i := range b {
					b[i] = in.tc.Select(x.Mem.Arr, in.tc.Bin(OpAdd, x.Off, in.tc.BV(64, uint64(i))))
				}
				return mkStr(b)
			case *Term:
				if x.IsConst() {
					return string(rune(x.Int64()))
				}
				panic(engineErr{"string(symbolic rune)"})
			}
		case types.UnsafePointer:
			switch x := x.(type) {
			case UnsafePtr:
				return x
			case *Value:
				return UnsafePtr{P: x}
			case *Term:
				panic(engineErr{"unsafe.Pointer(uintptr) unsupported"})
			}
			return UnsafePtr{P: x}
		}
	case *types.Slice:
		switch x := x.(type) {
		case string, *SymStr:
			b := in.strBytes(x)
			if widthOf(ut.Elem()) == 8 {
				s := make(Slice, len(b))
				for i, t := range b {
					s[i] = t
				}
				return s
			}
			// []rune
			xs, ok := x.(string)
			if !ok {
				panic(engineErr{"[]rune(symbolic string)"})
			}
			var s Slice
			for _, r := range xs {
				s = append(s, in.tc.BV(32, uint64(r)))
			}
			if s == nil {
				s = Slice{}
			}
			return s
		case Slice, *SymSlice:
			return x
		}
	case *types.Pointer:
		switch x := x.(type) {
		case UnsafePtr:
			if x.P == nil {
				return (*Value)(nil)
			}
			if p, ok := x.P.(*Value); ok {
				return p
			}
		case *Value:
			return x
		}
	}
	panic(engineErr{fmt.Sprintf("conv: unsupported %v -> %v (%T)", tSrc, tDst, x)})
}

func (in *Interp) makeSlice(t types.Type, lenv, capv Value) Value {
	elem := t.Underlying().(*types.Slice).Elem()
	l := lenv.(*Term)
	c := capv.(*Term)
	const bigLimit = 1 << 16
	isByte := widthOf(elem) == 8
	if isByte && !l.IsConst() && l == c {
		// optionally concretise small symbolic sizes so that content is tracked exactly
		if lim := in.param("concretize_make", 0); lim > 0 {
			l64 := in.to64(l, true)
			small := in.tc.And(in.tc.Cmp(OpSle, in.tc.BV(64, 0), l64), in.tc.Cmp(OpSle, l64, in.tc.BV(64, uint64(lim))))
			if in.branch(small) {
				v := in.concretize(l64, "make([]byte, n)")
				l = in.tc.BV(l.W, uint64(v))
				c = l
			}
		}
	}
	if isByte && (!l.IsConst() || !c.IsConst() || c.Int64() > bigLimit) {
		l64, c64 := in.to64(l, true), in.to64(c, true)
		in.check(in.tc.Cmp(OpSle, in.tc.BV(64, 0), l64), "makeslice: len out of range")
		in.check(in.tc.Cmp(OpSle, l64, c64), "makeslice: cap out of range")
		// Go refuses allocations beyond the address space; 2^47 is a safe model.
		in.check(in.tc.Cmp(OpUle, c64, in.tc.BV(64, 1<<47)), "makeslice: len out of range")
		in.noteAlloc(c64)
		in.nextObjID++
		mem := &SymMem{ID: in.nextObjID, Arr: in.tc.mk(&Term{Op: OpConstArr, W: -1, K: 0})}
		return &SymSlice{Mem: mem, Off: in.tc.BV(64, 0), Len: l64, Cap: c64}
	}
	ln := in.concreteInt(l, "make len")
	cp := in.concreteInt(c, "make cap")
	if ln < 0 || cp < ln {
		panic(runtimeError("makeslice: len out of range"))
	}
	if cp > 1<<24 {
		panic(engineErr{fmt.Sprintf("makeSlice: %d elements too large to model concretely", cp)})
	}
	in.noteAlloc(in.tc.BV(64, uint64(cp)))
	s := make(Slice, cp)
	z := in.zero(elem)
	switch z.(type) {
	case Struct, Array:
		for i := range s {
			s[i] = copyVal(z)
		}
	default:
		for i := range s {
			s[i] = z
		}
	}
	return s[:ln]
}

func (in *Interp) sliceOp(instr *ssa.Slice, x, lo, hi, max Value) Value {
	tc := in.tc
	getC := func(v Value, def int) (int, *Term) {
		if v == nil {
			return def, nil
		}
		t := v.(*Term)
		if t.IsConst() {
			return int(t.Int64()), nil
		}
		return 0, t
	}
	switch x := x.(type) {
	case string, *SymStr:
		b := in.strBytes(x)
		l, ls := getC(lo, 0)
		h, hs := getC(hi, len(b))
		if ls != nil {
			l = int(in.concretizeRange(ls, 0, len(b), "string slice low"))
		}
		if hs != nil {
			h = int(in.concretizeRange(hs, l, len(b), "string slice high"))
		}
		if l < 0 || h < l || h > len(b) {
			panic(runtimeError(fmt.Sprintf("slice bounds out of range [%d:%d] with length %d", l, h, len(b))))
		}
		return mkStr(b[l:h])
	case *Value: // *array
		if x == nil {
			panic(runtimeError("invalid memory address or nil pointer dereference"))
		}
		a := (*x).(Array)
		return in.sliceConcrete(Slice(a), lo, hi, max)
	case Slice:
		return in.sliceConcrete(x, lo, hi, max)
	case *SymSlice:
		if x == nil {
			x = &SymSlice{Mem: &SymMem{Arr: tc.mk(&Term{Op: OpConstArr, W: -1})}, Off: tc.BV(64, 0), Len: tc.BV(64, 0), Cap: tc.BV(64, 0)}
		}
		l := tc.BV(64, 0)
		if lo != nil {
			l = in.to64(lo.(*Term), true)
		}
		h := x.Len
		if hi != nil {
			h = in.to64(hi.(*Term), true)
		}
		m := x.Cap
		if max != nil {
			m = in.to64(max.(*Term), true)
			in.check(tc.Cmp(OpUle, m, x.Cap), "slice bounds out of range [::max] with capacity")
		}
		in.check(tc.Cmp(OpUle, h, m), "slice bounds out of range [:high] with capacity")
		in.check(tc.Cmp(OpUle, l, h), "slice bounds out of range [low:high]")
		return &SymSlice{Mem: x.Mem, Off: tc.Bin(OpAdd, x.Off, l), Len: tc.Bin(OpSub, h, l), Cap: tc.Bin(OpSub, m, l)}
	}
	panic(engineErr{fmt.Sprintf("slice of %T", x)})
}

func (in *Interp) sliceConcrete(x Slice, lo, hi, max Value) Value {
	l, h, m := 0, len(x), cap(x)
	if lo != nil {
		l = int(in.concretizeRange(lo.(*Term), 0, cap(x), "slice low"))
	}
	if hi != nil {
		h = int(in.concretizeRange(hi.(*Term), 0, cap(x), "slice high"))
	}
	if max != nil {
		m = int(in.concretizeRange(max.(*Term), 0, cap(x), "slice max"))
	}
	if l < 0 || l > h || h > m || m > cap(x) {
		panic(runtimeError(fmt.Sprintf("slice bounds out of range [%d:%d:%d] with capacity %d", l, h, m, cap(x))))
	}
	if x == nil && l == 0 && h == 0 {
		return Slice(nil)
	}
	return x[l:h:m]
}

// concretizeRange returns a concrete value for t; values outside [lo,hi]
// are represented by the single out-of-range value hi+1 (callers then panic).
func (in *Interp) concretizeRange(t *Term, lo, hi int, what string) int64 {
	if t.IsConst() {
		return t.Int64()
	}
	tc := in.tc
	t64 := in.to64(t, true)
	inR := tc.And(tc.Cmp(OpSle, tc.BV(64, uint64(lo)), t64), tc.Cmp(OpSle, t64, tc.BV(64, uint64(hi))))
	if !in.branch(inR) {
		return int64(hi) + 1
	}
	if hi-lo <= 3 {
		for k := lo; k < hi; k++ {
			if in.branch(tc.Eq(t64, tc.BV(64, uint64(k)))) {
				return int64(k)
			}
		}
		return int64(hi)
	}
	return in.concretize(t64, what)
}

func (in *Interp) concretizeRangeOld(t *Term, lo, hi int) int64 {
	return int64(hi)
}

func (in *Interp) lookup(instr *ssa.Lookup, x, idx Value) Value {
	switch x := x.(type) {
	case *Map:
		in.mapEvent(x, "rd", idx)
		v, ok := in.mapLookup(x, idx)
		if in.thread != nil {
			if cv, cok, over := in.schedMapRead(); over {
				v, ok = cv, cok
			}
		}
		if !ok {
			v = in.zero(instr.X.Type().Underlying().(*types.Map).Elem())
		} else {
			v = copyVal(v)
		}
		if instr.CommaOk {
			return Tuple{v, in.tc.Bool(ok)}
		}
		return v
	case string, *SymStr:
		b := in.strBytes(x)
		i := in.boundedIndex(idx.(*Term), len(b), instr.Index.Type())
		return b[i]
	}
	panic(engineErr{fmt.Sprintf("lookup on %T", x)})
}

func (in *Interp) typeAssert(instr *ssa.TypeAssert, itf Iface) Value {
	var v Value
	var ok bool
	if idst, isI := instr.AssertedType.Underlying().(*types.Interface); isI {
		if itf.T != nil && in.implements(itf.T, idst) {
			v, ok = itf, true
		}
	} else if itf.T != nil && types.Identical(itf.T, instr.AssertedType) {
		v, ok = copyVal(itf.V), true
	}
	if !ok {
		if !instr.CommaOk {
			tn := "nil"
			if itf.T != nil {
				tn = itf.T.String()
			}
			panic(runtimeError(fmt.Sprintf("interface conversion: interface is %s, not %s", tn, instr.AssertedType)))
		}
		v = in.zero(instr.AssertedType)
	}
	if instr.CommaOk {
		return Tuple{v, in.tc.Bool(ok)}
	}
	return v
}

func (in *Interp) implements(t types.Type, iface *types.Interface) bool {
	return types.Implements(t, iface)
}

// ---------- builtins ----------

func (in *Interp) callBuiltin(caller *frame, pos token.Pos, fn *ssa.Builtin, args []Value) Value {
	tc := in.tc
	switch fn.Name() {
	case "append":
		if len(args) == 1 {
			return args[0]
		}
		return in.appendOp(args[0], args[1])
	case "copy":
		return in.copyOp(args[0], args[1])
	case "close":
		in.chanClose(args[0].(*Chan))
		return nil
	case "delete":
		m := args[0].(*Map)
		in.mapEvent(m, "wr", args[1])
		if in.thread != nil {
			in.schedMapWrite(nil, true)
		}
		in.mapDelete(m, args[1])
		return nil
	case "clear":
		switch x := args[0].(type) {
		case *Map:
			for _, e := range x.Entries() {
				in.mapDelete(x, e.k)
			}
		default:
			panic(engineErr{"clear on non-map"})
		}
		return nil
	case "print", "println":
		return nil
	case "len":
		switch x := args[0].(type) {
		case string, *SymStr:
			return tc.BV(64, uint64(strLen(x)))
		case Array:
			return tc.BV(64, uint64(len(x)))
		case *Value:
			return tc.BV(64, uint64(len((*x).(Array))))
		case Slice:
			return tc.BV(64, uint64(len(x)))
		case *SymSlice:
			if x == nil {
				return tc.BV(64, 0)
			}
			return x.Len
		case *Map:
			in.mapEvent(x, "len", nil)
			return tc.BV(64, uint64(x.Len()))
		case *Chan:
			if x == nil {
				return tc.BV(64, 0)
			}
			return tc.BV(64, uint64(len(x.Buf)))
		}
		panic(engineErr{fmt.Sprintf("len of %T", args[0])})
	case "cap":
		switch x := args[0].(type) {
		case Array:
			return tc.BV(64, uint64(len(x)))
		case *Value:
			return tc.BV(64, uint64(len((*x).(Array))))
		case Slice:
			return tc.BV(64, uint64(cap(x)))
		case *SymSlice:
			if x == nil {
				return tc.BV(64, 0)
			}
			return x.Cap
		case *Chan:
			if x == nil {
				return tc.BV(64, 0)
			}
			return tc.BV(64, uint64(x.Cap))
		}
		panic(engineErr{fmt.Sprintf("cap of %T", args[0])})
	case "min", "max":
		r := args[0]
		sig := fn.Type().(*types.Signature)
		signed := isSigned(sig.Params().At(0).Type())
		for _, a := range args[1:] {
			x, y := r.(*Term), a.(*Term)
			var lt *Term
			if signed {
				lt = tc.Cmp(OpSlt, x, y)
			} else {
				lt = tc.Cmp(OpUlt, x, y)
			}
			if fn.Name() == "min" {
				r = tc.Ite(lt, x, y)
			} else {
				r = tc.Ite(lt, y, x)
			}
		}
		return r
	case "panic":
		panic(targetPanic{args[0]})
	case "recover":
		return doRecover(caller)
	case "ssa:wrapnilchk":
		recv := args[0]
		if p, ok := recv.(*Value); ok && p == nil {
			panic(runtimeError(fmt.Sprintf("value method %s.%s called using nil pointer", in.valString(args[1]), in.valString(args[2]))))
		}
		return recv
	}
	panic(engineErr{"unknown built-in: " + fn.Name()})
}

func doRecover(caller *frame) Value {
	// recover() must be called directly by a deferred function.
	if caller.caller != nil && caller.caller.panicking {
		caller.caller.panicking = false
		p := caller.caller.panic
		caller.caller.panic = nil
		switch p := p.(type) {
		case targetPanic:
			if itf, ok := p.v.(Iface); ok {
				return itf
			}
			return Iface{T: types.Typ[types.String], V: "panic"}
		default:
			panic(engineErr{fmt.Sprintf("recover of non-target panic %T", p)})
		}
	}
	return Iface{}
}

func (in *Interp) appendOp(dst, src Value) Value {
	switch d := dst.(type) {
	case Slice:
		var s Slice
		switch x := src.(type) {
		case Slice:
			s = x
		case string, *SymStr:
			for _, b := range in.strBytes(x) {
				s = append(s, b)
			}
		case *SymSlice:
			if x == nil {
				return d
			}
			n := in.concreteInt(x.Len, "append(symbolic-length bytes)")
			for i := int64(0); i < n; i++ {
				s = append(s, in.tc.Select(x.Mem.Arr, in.tc.Bin(OpAdd, x.Off, in.tc.BV(64, uint64(i)))))
			}
		default:
			panic(engineErr{fmt.Sprintf("append src %T", src)})
		}
		if len(s) == 0 {
			return d
		}
		if len(d)+len(s) > cap(d) {
			in.noteAlloc(in.tc.BV(64, uint64(len(d)+len(s))))
		}
		r := d
		for _, v := range s {
			r = append(r, copyVal(v))
		}
		return r
	case *SymSlice:
		if d == nil {
			switch x := src.(type) {
			case *SymSlice:
				return x
			}
			return in.appendOp(Slice(nil), src)
		}
		// append to a symbolic-length slice: materialise if its length is small and concrete.
		n := in.concreteInt(d.Len, "append to symbolic-length slice")
		s := make(Slice, n)
		for i := range s {
			s[i] = in.tc.Select(d.Mem.Arr, in.tc.Bin(OpAdd, d.Off, in.tc.BV(64, uint64(i))))
		}
		return in.appendOp(s, src)
	}
	panic(engineErr{fmt.Sprintf("append dst %T", dst)})
}

func (in *Interp) copyOp(dst, src Value) Value {
	tc := in.tc
	switch d := dst.(type) {
	case Slice:
		switch s := src.(type) {
		case Slice:
			n := len(d)
			if len(s) < n {
				n = len(s)
			}
			// handle overlap like memmove
			tmp := make([]Value, n)
			for i := 0; i < n; i++ {
				tmp[i] = copyVal(s[i])
			}
			for i := 0; i < n; i++ {
				in.cellEvent(&d[i], true)
				d[i] = tmp[i]
			}
			return tc.BV(64, uint64(n))
		case string, *SymStr:
			b := in.strBytes(s)
			n := len(d)
			if len(b) < n {
				n = len(b)
			}
			for i := 0; i < n; i++ {
				d[i] = b[i]
			}
			return tc.BV(64, uint64(n))
		case *SymSlice:
			if s == nil {
				return tc.BV(64, 0)
			}
			// n = min(len(d), s.Len)
			dl := tc.BV(64, uint64(len(d)))
			n := tc.Ite(tc.Cmp(OpUlt, s.Len, dl), s.Len, dl)
			for i := range d {
				iv := tc.BV(64, uint64(i))
				within := tc.Cmp(OpUlt, iv, n)
				d[i] = tc.Ite(within, tc.Select(s.Mem.Arr, tc.Bin(OpAdd, s.Off, iv)), d[i].(*Term))
			}
			return n
		}
	case *SymSlice:
		if d == nil {
			return tc.BV(64, 0)
		}
		switch s := src.(type) {
		case Slice:
			sl := tc.BV(64, uint64(len(s)))
			n := tc.Ite(tc.Cmp(OpUlt, d.Len, sl), d.Len, sl)
			if len(s) > 4096 {
				d.Mem.Arr = tc.FreshArray("havoc")
				return n
			}
			for i := range s {
				iv := tc.BV(64, uint64(i))
				within := tc.Cmp(OpUlt, iv, n)
				idx := tc.Bin(OpAdd, d.Off, iv)
				old := tc.Select(d.Mem.Arr, idx)
				d.Mem.Arr = tc.Store(d.Mem.Arr, idx, tc.Ite(within, s[i].(*Term), old))
			}
			return n
		case string, *SymStr:
			b := in.strBytes(s)
			sl := make(Slice, len(b))
			for i := range b {
				sl[i] = b[i]
			}
			return in.copyOp(d, sl)
		case *SymSlice:
			if s == nil {
				return tc.BV(64, 0)
			}
			n := tc.Ite(tc.Cmp(OpUlt, d.Len, s.Len), d.Len, s.Len)
			if n.IsConst() && n.K <= 64 {
				vals := make([]*Term, n.K)
				for i := range vals {
					vals[i] = tc.Select(s.Mem.Arr, tc.Bin(OpAdd, s.Off, tc.BV(64, uint64(i))))
				}
				for i := range vals {
					d.Mem.Arr = tc.Store(d.Mem.Arr, tc.Bin(OpAdd, d.Off, tc.BV(64, uint64(i))), vals[i])
				}
				return n
			}
			// bulk copy of symbolic length: content of dst becomes unknown
			// outside a precise model; havoc (over-approximation).
			d.Mem.Arr = tc.FreshArray("havoc")
			in.stubsUsed["copy(symbolic-length): destination content havocked"] = true
			return n
		}
	}
	panic(engineErr{fmt.Sprintf("copy %T <- %T", dst, src)})
}

// ---------- channels (sequential semantics) ----------

func (in *Interp) chanSend(c *Chan, v Value) {
	if c == nil {
		panic(pathEnd{"blocked", "send on nil channel"})
	}
	in.chanEvent(c, "send")
	if c.Closed {
		panic(targetPanic{Iface{T: types.Typ[types.String], V: "send on closed channel"}})
	}
	if len(c.Buf) < c.Cap {
		c.Buf = append(c.Buf, copyVal(v))
		return
	}
	panic(pathEnd{"blocked", "send would block"})
}

func (in *Interp) chanRecv(c *Chan) (Value, bool) {
	if c == nil {
		panic(pathEnd{"blocked", "receive from nil channel"})
	}
	in.chanEvent(c, "recv")
	if len(c.Buf) > 0 {
		v := c.Buf[0]
		c.Buf = c.Buf[1:]
		return v, true
	}
	if c.Closed {
		return nil, false
	}
	if in.thread != nil {
		// in thread mode a receive on an open empty channel is a wait
		// for another thread's close/send; the trace records it and
		// continues as if it had been closed (wait-for-close idiom).
		if in.thread.recvWaits {
			if in.schedOn() {
				in.thread.trace.Events[len(in.thread.trace.Events)-1].Mode = "wait"
			}
			return nil, false
		}
	}
	// cooperative scheduling of the sequential engine: the goroutines the code
	// under test has spawned so far get to run (each to completion) when the
	// main one would block; the receive is then retried once
	if in.thread == nil && len(in.spawned) > 0 && in.cur != nil {
		fr := in.cur
		for len(in.spawned) > 0 {
			s := in.spawned[0]
			in.spawned = in.spawned[1:]
			in.call(fr, fr.callPos, s.fn, s.args)
		}
		in.cur = fr
		if len(c.Buf) > 0 {
			v := c.Buf[0]
			c.Buf = c.Buf[1:]
			return v, true
		}
		if c.Closed {
			return nil, false
		}
	}
	panic(pathEnd{"blocked", "receive would block"})
}

func (in *Interp) chanClose(c *Chan) {
	if c == nil {
		panic(targetPanic{Iface{T: types.Typ[types.String], V: "close of nil channel"}})
	}
	in.chanEvent(c, "close")
	if c.Closed {
		panic(targetPanic{Iface{T: types.Typ[types.String], V: "close of closed channel"}})
	}
	c.Closed = true
}

func (in *Interp) selectOp(fr *frame, instr *ssa.Select) Value {
	// collect ready cases
	var ready []int
	for i, st := range instr.States {
		c, _ := fr.get(st.Chan).(*Chan)
		if c == nil {
			continue
		}
		if st.Dir == types.RecvOnly {
			if len(c.Buf) > 0 || c.Closed {
				ready = append(ready, i)
			}
		} else {
			if c.Closed || len(c.Buf) < c.Cap {
				ready = append(ready, i)
			}
		}
	}
	chosen := -1
	if len(ready) == 0 {
		if instr.Blocking {
			panic(pathEnd{"blocked", "select would block"})
		}
	} else if len(ready) == 1 {
		chosen = ready[0]
	} else {
		if in.param("select_first", 0) == 1 {
			// stated reduction: of several ready cases only the first is explored
			chosen = ready[0]
			in.stubsUsed["select: first ready case only (select_first=1)"] = true
		} else {
			chosen = ready[in.choice(len(ready), "select")]
		}
	}
	recvOk := false
	var recvVal Value
	if chosen >= 0 {
		st := instr.States[chosen]
		c := fr.get(st.Chan).(*Chan)
		if st.Dir == types.RecvOnly {
			recvVal, recvOk = in.chanRecv(c)
		} else {
			in.chanSend(c, fr.get(st.Send))
		}
	}
	r := Tuple{in.tc.BV(64, uint64(int64(chosen))), in.tc.Bool(recvOk)}
	for i, st := range instr.States {
		if st.Dir == types.RecvOnly {
			var v Value
			if i == chosen && recvOk {
				v = recvVal
			} else {
				v = in.zero(st.Chan.Type().Underlying().(*types.Chan).Elem())
			}
			r = append(r, v)
		}
	}
	return r
}

// noteAlloc records a byte/element allocation size for allocation monitors.
func (in *Interp) noteAlloc(n *Term) {
	if in.path != nil && in.path.allocHook != nil {
		in.path.allocHook(n)
	}
}

func (in *Interp) param(name string, def int) int {
	if v, ok := in.params[name]; ok {
		return v
	}
	return def
}
