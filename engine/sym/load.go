package sym

import (
	"fmt"
	"go/types"
	"os"
	"path/filepath"
	"sort"
	"strings"

	"golang.org/x/tools/go/packages"
	"golang.org/x/tools/go/ssa"
	"golang.org/x/tools/go/ssa/ssautil"
)

// Loaded is a loaded and built SSA program (shared read-only by all workers).
type Loaded struct {
	Prog    *ssa.Program
	Pkgs    map[string]*ssa.Package // by import path
	Repo    string
	Overlay map[string][]byte
	Redir   map[string]string // intercepted function name -> harness function (pkgpath.Func)
}

const ModulePath = "github.com/hugelgupf/p9"

// Load loads the given repo package patterns with harness overlays.
// harnessDir has subdirectories mirroring repo package dirs (p9/, vecnet/, ...),
// every *.go file in them is overlaid as <repo>/<dir>/zz_verif_<name>.
// preludeSym is a file with body-less nondet declarations, added per package
// with the package clause rewritten.
func Load(repo, harnessDir string, pkgDirs []string) (*Loaded, error) {
	overlay := map[string][]byte{}
	redir := map[string]string{}
	prelude, err := os.ReadFile(filepath.Join(harnessDir, "prelude", "sym.go.txt"))
	if err != nil {
		return nil, err
	}
	var patterns []string
	for _, d := range pkgDirs {
		patterns = append(patterns, "./"+d)
		hd := filepath.Join(harnessDir, d)
		ents, _ := os.ReadDir(hd)
		pkgName := ""
		for _, e := range ents {
			if !strings.HasSuffix(e.Name(), ".go") || strings.HasSuffix(e.Name(), "_native.go") {
				continue
			}
			src, err := os.ReadFile(filepath.Join(hd, e.Name()))
			if err != nil {
				return nil, err
			}
			overlay[filepath.Join(repo, d, "zz_verif_"+e.Name())] = src
			for _, line := range strings.Split(string(src), "\n") {
				line = strings.TrimSpace(line)
				if strings.HasPrefix(line, "package ") && pkgName == "" {
					pkgName = strings.TrimSpace(strings.TrimPrefix(line, "package "))
				}
				if strings.HasPrefix(line, "//verif:intercept ") {
					kv := strings.SplitN(strings.TrimSpace(strings.TrimPrefix(line, "//verif:intercept ")), "=", 2)
					if len(kv) == 2 {
						redir[strings.TrimSpace(kv[0])] = ModulePath + "/" + d + "." + strings.TrimSpace(kv[1])
					}
				}
			}
		}
		if pkgName != "" {
			p := strings.Replace(string(prelude), "package PKG", "package "+pkgName, 1)
			overlay[filepath.Join(repo, d, "zz_verif_prelude.go")] = []byte(p)
		}
		if d == "p9" && pkgName != "" {
			src, _ := genConnCtor(repo)
			overlay[filepath.Join(repo, d, "zz_verif_gen_conn.go")] = []byte(src)
		}
	}
	cfg := &packages.Config{
		Mode:    packages.LoadAllSyntax,
		Dir:     repo,
		Overlay: overlay,
		Env:     append(os.Environ(), "GOFLAGS=-mod=mod", "GOPROXY=off", "GOSUMDB=off", "GOTOOLCHAIN=local"),
	}
	initial, err := packages.Load(cfg, patterns...)
	if err != nil {
		return nil, err
	}
	var errs []string
	packages.Visit(initial, nil, func(p *packages.Package) {
		for _, e := range p.Errors {
			errs = append(errs, e.Error())
		}
	})
	if len(errs) > 0 {
		sort.Strings(errs)
		if len(errs) > 15 {
			errs = errs[:15]
		}
		return nil, fmt.Errorf("package load errors:\n  %s", strings.Join(errs, "\n  "))
	}
	prog, _ := ssautil.AllPackages(initial, ssa.InstantiateGenerics)
	prog.Build()
	l := &Loaded{Prog: prog, Pkgs: map[string]*ssa.Package{}, Repo: repo, Overlay: overlay, Redir: redir}
	for _, p := range prog.AllPackages() {
		l.Pkgs[p.Pkg.Path()] = p
	}
	return l, nil
}

// Func finds a package-level function "pkgpath.Name".
func (l *Loaded) Func(pkgPath, name string) *ssa.Function {
	p := l.Pkgs[pkgPath]
	if p == nil {
		return nil
	}
	return p.Func(name)
}

// Harnesses lists the harness functions (VerifH_*) of a package.
func (l *Loaded) Harnesses(pkgPath string) []string {
	p := l.Pkgs[pkgPath]
	if p == nil {
		return nil
	}
	var out []string
	for name, m := range p.Members {
		if _, ok := m.(*ssa.Function); ok && strings.HasPrefix(name, "VerifH_") {
			out = append(out, name)
		}
	}
	sort.Strings(out)
	return out
}

// ---------- interpreter construction and package initialisation ----------

func newInterp(l *Loaded, tc *TermCtx, params map[string]int) *Interp {
	in := &Interp{
		prog:      l.Prog,
		tc:        tc,
		globals:   map[*ssa.Global]*Value{},
		extFor:    map[*ssa.Function]extFn{},
		redir:     map[string]*ssa.Function{},
		maxSteps:  300_000,
		initDone:  map[*ssa.Package]bool{},
		funcsSeen: map[*ssa.Function]bool{},
		stubsUsed: map[string]bool{},
		params:    params,
		pdom:      map[*ssa.Function]map[*ssa.BasicBlock]*ssa.BasicBlock{},
	}
	if v, ok := params["max_steps"]; ok {
		in.maxSteps = int64(v)
	}
	in.ext = in.makeExternals()
	for from, to := range l.Redir {
		i := strings.LastIndex(to, ".")
		if f := l.Func(to[:i], to[i+1:]); f != nil {
			in.redir[from] = f
		} else {
			panic(fmt.Sprintf("intercept target %s not found", to))
		}
	}
	return in
}

// which packages get their initialisers executed, and how
func initMode(path string) int {
	switch {
	case strings.HasPrefix(path, ModulePath):
		return 2 // strict
	}
	switch path {
	case "errors", "internal/oserror", "io", "io/fs", "os", "syscall",
		"path", "io/ioutil", "github.com/u-root/uio/ulog", "internal/bytealg":
		return 1 // lenient
	}
	return 0
}

func (in *Interp) initPackages(root *ssa.Package) {
	f := root.Func("init")
	if f == nil {
		return
	}
	saved := in.funcsSeen
	in.funcsSeen = map[*ssa.Function]bool{} // do not report initialisers as encoded functions
	in.callSSA(nil, f.Pos(), f, nil, nil)
	in.funcsSeen = saved
	if os.Getenv("VERIF_INIT_DEBUG") != "" {
		fmt.Printf("[init] %d steps\n", in.steps)
	}
	in.steps = 0
}

// isPkgInit reports whether fn is a package initialiser.
func isPkgInit(fn *ssa.Function) bool {
	return fn.Name() == "init" && fn.Pkg != nil && fn.Parent() == nil && fn.Signature.Recv() == nil && fn.Pkg.Func("init") == fn
}

// callInit applies the init policy to a call of a package initialiser.
// Returns true if handled.
func (in *Interp) callInit(fn *ssa.Function) bool {
	if !isPkgInit(fn) {
		return false
	}
	if in.initDone[fn.Pkg] {
		return true
	}
	in.initDone[fn.Pkg] = true
	mode := initMode(fn.Pkg.Pkg.Path())
	if mode == 0 {
		return true // skipped: globals stay zero
	}
	if mode == 1 {
		in.lenient++
		defer func() { in.lenient-- }()
	}
	return false
}

var _ = types.Identical
