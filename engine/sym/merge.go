package sym

import (
	"go/token"
	"go/types"

	"golang.org/x/tools/go/ssa"
)

// ---------- post-dominators ----------

func (in *Interp) ipdomOf(fn *ssa.Function) map[*ssa.BasicBlock]*ssa.BasicBlock {
	if m, ok := in.pdom[fn]; ok {
		return m
	}
	m := in.ex.ipdomCached(fn)
	in.pdom[fn] = m
	return m
}

func (ex *Explorer) ipdomCached(fn *ssa.Function) map[*ssa.BasicBlock]*ssa.BasicBlock {
	ex.mu.Lock()
	if ex.pdomCache == nil {
		ex.pdomCache = map[*ssa.Function]map[*ssa.BasicBlock]*ssa.BasicBlock{}
	}
	if m, ok := ex.pdomCache[fn]; ok {
		ex.mu.Unlock()
		return m
	}
	ex.mu.Unlock()
	m := computeIpdom(fn)
	ex.mu.Lock()
	ex.pdomCache[fn] = m
	ex.mu.Unlock()
	return m
}

func computeIpdom(fn *ssa.Function) map[*ssa.BasicBlock]*ssa.BasicBlock {
	n := len(fn.Blocks)
	exit := n // virtual exit index
	words := (n + 1 + 63) / 64
	type bs []uint64
	full := func() bs {
		b := make(bs, words)
		for i := 0; i <= n; i++ {
			b[i/64] |= 1 << uint(i%64)
		}
		return b
	}
	pd := make([]bs, n+1)
	for i := 0; i < n; i++ {
		pd[i] = full()
	}
	pd[exit] = make(bs, words)
	pd[exit][exit/64] |= 1 << uint(exit%64)
	changed := true
	for changed {
		changed = false
		for i := n - 1; i >= 0; i-- {
			b := fn.Blocks[i]
			nw := full()
			if len(b.Succs) == 0 {
				copy(nw, pd[exit])
			} else {
				for _, s := range b.Succs {
					for w := range nw {
						nw[w] &= pd[s.Index][w]
					}
				}
			}
			nw[i/64] |= 1 << uint(i%64)
			for w := range nw {
				if nw[w] != pd[i][w] {
					changed = true
				}
			}
			pd[i] = nw
		}
	}
	count := func(b bs) int {
		c := 0
		for i := 0; i <= n; i++ {
			if b[i/64]&(1<<uint(i%64)) != 0 {
				c++
			}
		}
		return c
	}
	res := map[*ssa.BasicBlock]*ssa.BasicBlock{}
	for i := 0; i < n; i++ {
		want := count(pd[i]) - 1
		for j := 0; j < n; j++ {
			if j == i || pd[i][j/64]&(1<<uint(j%64)) == 0 {
				continue
			}
			if count(pd[j]) == want {
				res[fn.Blocks[i]] = fn.Blocks[j]
				break
			}
		}
	}
	return res
}

// ---------- merging of pure regions ----------

type mergeEdge struct {
	guard *Term
	from  *ssa.BasicBlock
	ret   []Value // results, when the edge ends in a Return
	isRet bool
}

// tryMerge evaluates both arms of a symbolic If when the region up to the
// immediate post-dominator is side-effect free, and joins values with ite.
func (in *Interp) tryMerge(fr *frame, instr *ssa.If, c *Term) bool {
	if in.param("no_merge", 0) == 1 {
		return false
	}
	blk := fr.block
	J := in.ipdomOf(fr.fn)[blk]
	if J == nil {
		return in.tryMergeReturn(fr, instr, c)
	}
	var edges []mergeEdge
	budget := 16
	stepsBefore := in.steps
	ok := in.spec(fr, blk.Succs[0], blk, c, J, &edges, &budget) &&
		in.spec(fr, blk.Succs[1], blk, in.tc.Not(c), J, &edges, &budget)
	if !ok {
		in.steps = stepsBefore
		return false
	}
	// compute phis of J
	var phis []*ssa.Phi
	var vals []Value
	for _, ins := range J.Instrs {
		phi, isPhi := ins.(*ssa.Phi)
		if !isPhi {
			break
		}
		var merged Value
		for k, e := range edges {
			idx := -1
			for i, p := range J.Preds {
				if p == e.from {
					idx = i
					break
				}
			}
			if idx < 0 {
				return false
			}
			v := fr.get(phi.Edges[idx])
			if k == 0 {
				merged = v
				continue
			}
			mt, ok1 := merged.(*Term)
			vt, ok2 := v.(*Term)
			if ok1 && ok2 && mt.W == vt.W {
				// edges guards are mutually exclusive and exhaustive
				merged = in.tc.Ite(e.guard, vt, mt)
				continue
			}
			if !sameValue(merged, v) {
				return false
			}
		}
		phis = append(phis, phi)
		vals = append(vals, merged)
	}
	for i, phi := range phis {
		fr.env[phi] = vals[i]
	}
	fr.prevBlock, fr.block = nil, J
	fr.skipPhi = true
	return true
}

func sameValue(a, b Value) bool {
	switch x := a.(type) {
	case nil:
		return b == nil
	case *Term:
		y, ok := b.(*Term)
		return ok && x == y
	case string:
		y, ok := b.(string)
		return ok && x == y
	case *Value:
		y, ok := b.(*Value)
		return ok && x == y
	case *Map:
		y, ok := b.(*Map)
		return ok && x == y
	case *Chan:
		y, ok := b.(*Chan)
		return ok && x == y
	case Iface:
		y, ok := b.(Iface)
		if !ok {
			return false
		}
		if x.T == nil || y.T == nil {
			return x.T == nil && y.T == nil
		}
		return types.Identical(x.T, y.T) && sameValue(x.V, y.V)
	}
	return false
}

func (in *Interp) spec(fr *frame, b, pred *ssa.BasicBlock, guard *Term, J *ssa.BasicBlock, edges *[]mergeEdge, budget *int) bool {
	if b == J {
		*edges = append(*edges, mergeEdge{guard: guard, from: pred})
		return true
	}
	if len(b.Preds) != 1 || (J == nil && b == fr.block) {
		return false
	}
	*budget--
	if *budget < 0 {
		return false
	}
	n := len(b.Instrs)
	for _, ins := range b.Instrs[:n-1] {
		if !in.pureEval(fr, ins) {
			return false
		}
	}
	switch t := b.Instrs[n-1].(type) {
	case *ssa.Return:
		if J != nil {
			return false
		}
		e := mergeEdge{guard: guard, from: b, isRet: true}
		for _, r := range t.Results {
			e.ret = append(e.ret, fr.get(r))
		}
		*edges = append(*edges, e)
		return true
	case *ssa.Jump:
		return in.spec(fr, b.Succs[0], b, guard, J, edges, budget)
	case *ssa.If:
		c, ok := fr.get(t.Cond).(*Term)
		if !ok {
			return false
		}
		if c.IsConst() {
			if c.IsTrue() {
				return in.spec(fr, b.Succs[0], b, guard, J, edges, budget)
			}
			return in.spec(fr, b.Succs[1], b, guard, J, edges, budget)
		}
		return in.spec(fr, b.Succs[0], b, in.tc.And(guard, c), J, edges, budget) &&
			in.spec(fr, b.Succs[1], b, in.tc.And(guard, in.tc.Not(c)), J, edges, budget)
	}
	return false
}

var pureCalls = map[string]bool{
	"strings.Contains": true,
}

// pureEval executes ins if it is free of side effects and cannot fork or
// panic in the current state; it reports whether it did.
func (in *Interp) pureEval(fr *frame, ins ssa.Instruction) (ok bool) {
	defer func() {
		if r := recover(); r != nil {
			switch r.(type) {
			case engineErr, targetPanic:
				ok = false
			default:
				panic(r)
			}
		}
	}()
	isConstIdx := func(v ssa.Value) bool {
		t, ok := fr.get(v).(*Term)
		return ok && t.IsConst()
	}
	switch ins := ins.(type) {
	case *ssa.DebugRef:
		return true
	case *ssa.Phi:
		if len(ins.Edges) != 1 {
			return false
		}
		fr.env[ins] = fr.get(ins.Edges[0])
		return true
	case *ssa.BinOp:
		if ins.Op == token.QUO || ins.Op == token.REM {
			if !isConstIdx(ins.Y) || fr.get(ins.Y).(*Term).K == 0 {
				return false
			}
		}
		x, y := fr.get(ins.X), fr.get(ins.Y)
		switch x.(type) {
		case *Term, string, *SymStr, *Value, float64:
		default:
			if ins.Op != token.EQL && ins.Op != token.NEQ {
				return false
			}
		}
		_ = y
	case *ssa.UnOp:
		switch ins.Op {
		case token.ARROW:
			return false
		case token.MUL:
			if in.thread != nil {
				return false
			}
			switch p := fr.get(ins.X).(type) {
			case *Value:
				if p == nil {
					return false
				}
			case SymPtr:
			default:
				return false
			}
		}
	case *ssa.Convert:
		if _, isT := fr.get(ins.X).(*Term); !isT {
			return false
		}
		if widthOf(ins.Type()) == 0 {
			return false
		}
	case *ssa.ChangeType, *ssa.ChangeInterface, *ssa.MakeInterface, *ssa.Extract, *ssa.Field:
	case *ssa.FieldAddr:
		p, isP := fr.get(ins.X).(*Value)
		if !isP || p == nil {
			return false
		}
	case *ssa.IndexAddr:
		if !isConstIdx(ins.Index) {
			return false
		}
		if _, isSym := fr.get(ins.X).(*SymSlice); isSym {
			return false
		}
	case *ssa.Index:
		if !isConstIdx(ins.Index) {
			return false
		}
	case *ssa.Call:
		if ins.Call.Method != nil {
			return false
		}
		switch f := ins.Call.Value.(type) {
		case *ssa.Builtin:
			switch f.Name() {
			case "len", "cap", "min", "max":
				if _, isMap := fr.get(ins.Call.Args[0]).(*Map); isMap && in.thread != nil {
					return false
				}
			default:
				return false
			}
		case *ssa.Function:
			if !pureCalls[f.String()] {
				return false
			}
		default:
			return false
		}
	default:
		return false
	}
	in.steps++
	return in.visitInstr(fr, ins) == kNext
}

// tryMergeReturn handles `if c { return x }; return y` shapes: both arms are
// pure and end in Return; the results are joined with ite and the frame returns.
func (in *Interp) tryMergeReturn(fr *frame, instr *ssa.If, c *Term) bool {
	if fr.defers != nil {
		return false
	}
	blk := fr.block
	var edges []mergeEdge
	budget := 12
	stepsBefore := in.steps
	ok := in.spec(fr, blk.Succs[0], blk, c, nil, &edges, &budget) &&
		in.spec(fr, blk.Succs[1], blk, in.tc.Not(c), nil, &edges, &budget)
	if !ok || len(edges) == 0 {
		in.steps = stepsBefore
		return false
	}
	nres := len(edges[0].ret)
	merged := make([]Value, nres)
	for i := 0; i < nres; i++ {
		for k, e := range edges {
			if len(e.ret) != nres {
				return false
			}
			v := e.ret[i]
			if k == 0 {
				merged[i] = v
				continue
			}
			mt, ok1 := merged[i].(*Term)
			vt, ok2 := v.(*Term)
			if ok1 && ok2 && mt.W == vt.W {
				merged[i] = in.tc.Ite(e.guard, vt, mt)
				continue
			}
			if !sameValue(merged[i], v) {
				return false
			}
		}
	}
	switch nres {
	case 0:
	case 1:
		fr.result = merged[0]
	default:
		fr.result = Tuple(merged)
	}
	fr.block = nil
	fr.mergedReturn = true
	return true
}
