package sym

import (
	"context"
	"encoding/json"
	"fmt"
	"os"
	"os/exec"
	"path/filepath"
	"regexp"
	"sort"
	"strings"
	"time"
)

var harnessFuncRe = regexp.MustCompile(`(?m)^func (VerifH_[A-Za-z0-9_]+)\(\)`)

// buildNativeOverlay writes the go-build overlay that injects the harness
// files, the native prelude and the replay test into pkgDir.
func buildNativeOverlay(repo, harnessDir, pkgDir, tmp string) (string, error) {
	replace := map[string]string{}
	hd := filepath.Join(harnessDir, pkgDir)
	ents, err := os.ReadDir(hd)
	if err != nil {
		return "", err
	}
	pkgName := ""
	var harnesses []string
	for _, e := range ents {
		if !strings.HasSuffix(e.Name(), ".go") || strings.HasSuffix(e.Name(), "_sym.go") {
			continue
		}
		src, err := os.ReadFile(filepath.Join(hd, e.Name()))
		if err != nil {
			return "", err
		}
		replace[filepath.Join(repo, pkgDir, "zz_verif_"+e.Name())] = filepath.Join(hd, e.Name())
		if m := regexp.MustCompile(`(?m)^package (\w+)`).FindStringSubmatch(string(src)); m != nil && pkgName == "" {
			pkgName = m[1]
		}
		for _, m := range harnessFuncRe.FindAllStringSubmatch(string(src), -1) {
			harnesses = append(harnesses, m[1])
		}
		// environment-model interceptions: rename the original function so
		// that the harness's *_native.go wrapper takes its place
		for _, m := range regexp.MustCompile(`(?m)^//verif:intercept (\S+)=(\w+)`).FindAllStringSubmatch(string(src), -1) {
			full := m[1]
			i := strings.LastIndex(full, ".")
			if i < 0 || full[:i] != ModulePath+"/"+pkgDir {
				continue
			}
			fname := full[i+1:]
			rents, _ := os.ReadDir(filepath.Join(repo, pkgDir))
			for _, re := range rents {
				if !strings.HasSuffix(re.Name(), ".go") || strings.HasSuffix(re.Name(), "_test.go") {
					continue
				}
				rp := filepath.Join(repo, pkgDir, re.Name())
				rsrc, err := os.ReadFile(rp)
				if err != nil {
					continue
				}
				needle := "\nfunc " + fname + "("
				if !strings.Contains(string(rsrc), needle) {
					continue
				}
				mod := strings.Replace(string(rsrc), needle, "\nfunc "+fname+"_verifOrig(", 1)
				mp := filepath.Join(tmp, "orig_"+re.Name())
				os.WriteFile(mp, []byte(mod), 0o644)
				replace[rp] = mp
			}
		}
	}
	if pkgName == "" {
		return "", fmt.Errorf("no harness files in %s", hd)
	}
	sort.Strings(harnesses)
	native, err := os.ReadFile(filepath.Join(harnessDir, "prelude", "native.go.txt"))
	if err != nil {
		return "", err
	}
	ntest, err := os.ReadFile(filepath.Join(harnessDir, "prelude", "native_test.go.txt"))
	if err != nil {
		return "", err
	}
	var tab strings.Builder
	for _, h := range harnesses {
		fmt.Fprintf(&tab, "\t%q: %s,\n", h, h)
	}
	p1 := filepath.Join(tmp, "prelude_native.go")
	p2 := filepath.Join(tmp, "replay_test.go")
	os.WriteFile(p1, []byte(strings.Replace(string(native), "package PKG", "package "+pkgName, 1)), 0o644)
	t := strings.Replace(string(ntest), "package PKG", "package "+pkgName, 1)
	t = strings.Replace(t, "HARNESS_TABLE", tab.String(), 1)
	os.WriteFile(p2, []byte(t), 0o644)
	if pkgDir == "p9" {
		src, _ := genConnCtor(repo)
		p3 := filepath.Join(tmp, "gen_conn.go")
		os.WriteFile(p3, []byte(src), 0o644)
		replace[filepath.Join(repo, pkgDir, "zz_verif_gen_conn.go")] = p3
	}
	replace[filepath.Join(repo, pkgDir, "zz_verif_prelude.go")] = p1
	replace[filepath.Join(repo, pkgDir, "zz_verif_replay_test.go")] = p2
	ov := filepath.Join(tmp, "overlay.json")
	b, _ := json.Marshal(map[string]interface{}{"Replace": replace})
	if err := os.WriteFile(ov, b, 0o644); err != nil {
		return "", err
	}
	return ov, nil
}

type replayFile struct {
	Harness   string         `json:"harness"`
	Label     string         `json:"label"`
	Kind      string         `json:"kind"`
	Msg       string         `json:"msg,omitempty"`
	Property  string         `json:"property,omitempty"`
	Pkg       string         `json:"pkg"`
	Tape      []TapeEntry    `json:"tape"`
	Params    map[string]int `json:"params"`
	Decisions []int32        `json:"decisions"`
	Trace     []string       `json:"trace,omitempty"`
	Outs      []string       `json:"observations,omitempty"`
	Sched     []SchedStep    `json:"sched_order,omitempty"`
	SchedHang bool           `json:"sched_hang,omitempty"`
	SchedFree bool           `json:"sched_free,omitempty"`
	Note      string         `json:"note,omitempty"`
}

// NativeTest builds the replay test binary once for a package.
type NativeTest struct {
	Tmp    string
	Bin    string
	PkgDir string
	Repo   string
}

// BuildNativeTestRace builds the replay binary with the race detector.
func BuildNativeTestRace(repo, harnessDir, pkgDir string) (*NativeTest, error) {
	return buildNativeTest(repo, harnessDir, pkgDir, true)
}

func BuildNativeTest(repo, harnessDir, pkgDir string) (*NativeTest, error) {
	return buildNativeTest(repo, harnessDir, pkgDir, false)
}

func buildNativeTest(repo, harnessDir, pkgDir string, race bool) (*NativeTest, error) {
	tmp, err := os.MkdirTemp("", "p9sym-replay-")
	if err != nil {
		return nil, err
	}
	ov, err := buildNativeOverlay(repo, harnessDir, pkgDir, tmp)
	if err != nil {
		os.RemoveAll(tmp)
		return nil, err
	}
	bin := filepath.Join(tmp, "replay.test")
	ctx, cancel := context.WithTimeout(context.Background(), 5*time.Minute)
	defer cancel()
	args := []string{"test", "-c", "-vet=off", "-overlay", ov, "-o", bin}
	if race {
		args = append(args, "-race")
	}
	args = append(args, "./"+pkgDir)
	cmd := exec.CommandContext(ctx, "go", args...)
	cmd.Dir = repo
	cmd.Env = append(os.Environ(), "GOFLAGS=-mod=mod", "GOPROXY=off", "GOSUMDB=off", "GOTOOLCHAIN=local")
	out, err := cmd.CombinedOutput()
	if err != nil {
		os.RemoveAll(tmp)
		return nil, fmt.Errorf("native build failed: %v\n%s", err, out)
	}
	return &NativeTest{Tmp: tmp, Bin: bin, PkgDir: pkgDir, Repo: repo}, nil
}

func (nt *NativeTest) Close() {
	if nt != nil && nt.Tmp != "" {
		os.RemoveAll(nt.Tmp)
	}
}

// Run replays one tape file and returns the VERIF-REPLAY-RESULT line.
func (nt *NativeTest) Run(tapePath string, timeout time.Duration) (string, string) {
	ctx, cancel := context.WithTimeout(context.Background(), timeout+5*time.Second)
	defer cancel()
	cmd := exec.CommandContext(ctx, nt.Bin, "-test.run", "^TestVerifReplay$", "-test.timeout", timeout.String(), "-test.count", "1")
	cmd.Dir = filepath.Join(nt.Repo, nt.PkgDir)
	cmd.Env = append(os.Environ(), "VERIF_REPLAY="+tapePath)
	out, _ := cmd.CombinedOutput()
	txt := string(out)
	if strings.Contains(txt, "WARNING: DATA RACE") {
		return "data-race-detected", txt
	}
	if i := strings.Index(txt, "fatal error: concurrent map"); i >= 0 {
		return "fatal concurrent map access", txt
	}
	for _, line := range strings.Split(txt, "\n") {
		if strings.HasPrefix(line, "VERIF-REPLAY-RESULT ") {
			return strings.TrimPrefix(line, "VERIF-REPLAY-RESULT "), txt
		}
	}
	if strings.Contains(txt, "WARNING: DATA RACE") {
		return "data-race-detected", txt
	}
	if strings.Contains(txt, "test timed out") || ctx.Err() != nil {
		return "timeout", txt
	}
	if strings.Contains(txt, "fatal error:") {
		i := strings.Index(txt, "fatal error:")
		j := strings.IndexByte(txt[i:], '\n')
		if j < 0 {
			j = len(txt) - i
		}
		return "fatal " + txt[i:i+j], txt
	}
	return "no-result", txt
}

// confirms reports whether a native result reproduces the violation.
func confirms(v *Violation, res string) bool {
	switch v.Kind {
	case "assert":
		return res == "assert-failed "+v.Label
	case "panic":
		return strings.HasPrefix(res, "panic ") || strings.HasPrefix(res, "fatal ")
	case "blocked", "deadlock":
		return res == "timeout" || strings.HasPrefix(res, "fatal ")
	case "schedule":
		if v.SchedFree {
			return res == "data-race-detected" || strings.HasPrefix(res, "fatal ")
		}
		if v.SchedHang {
			return res == "sched-followed-then-hung"
		}
		return res == "sched-followed"
	}
	return false
}

// ReplayNative is the one-shot form: build, run, clean up.
func ReplayNative(repo, harnessDir, pkgDir string, v *Violation, keep string) (string, error) {
	nt, err := BuildNativeTest(repo, harnessDir, pkgDir)
	if err != nil {
		return "", err
	}
	defer nt.Close()
	tape := filepath.Join(nt.Tmp, "tape.json")
	if keep != "" {
		tape = keep
	}
	if err := writeReplayFile(tape, "", pkgDir, v); err != nil {
		return "", err
	}
	res, _ := nt.Run(tape, 30*time.Second)
	return res, nil
}

func writeReplayFile(path, property, pkgDir string, v *Violation) error {
	rf := replayFile{Harness: v.Harness, Label: v.Label, Kind: v.Kind, Msg: v.Msg, Property: property, Pkg: pkgDir,
		Tape: v.Tape, Params: v.Params, Decisions: v.Decisions, Trace: v.Trace, Outs: v.Outs, Sched: v.Sched, SchedHang: v.SchedHang, SchedFree: v.SchedFree}
	b, err := json.MarshalIndent(rf, "", " ")
	if err != nil {
		return err
	}
	os.MkdirAll(filepath.Dir(path), 0o755)
	return os.WriteFile(path, b, 0o644)
}
