package sym

import (
	"bufio"
	"encoding/json"
	"flag"
	"fmt"
	"os"
	"path/filepath"
	"runtime"
	"sort"
	"strings"
	"time"
)

// HarnessSpec describes one harness of a property.
type HarnessSpec struct {
	Pkg      string         `json:"pkg"`
	Fn       string         `json:"fn"`
	Reach    []string       `json:"reach"`
	Quick    map[string]int `json:"quick"`
	Thorough map[string]int `json:"thorough"`
	Tier     string         `json:"tier,omitempty"` // "thorough": only in thorough tier
	Mode     string         `json:"mode,omitempty"` // "" sequential, "sched" schedule layer
	// schedule harnesses: explicit scenario numbers per tier (instead of 0..scenarios-1)
	QuickScenarios    []int  `json:"quick_scenarios,omitempty"`
	ThoroughScenarios []int  `json:"thorough_scenarios,omitempty"`
	Note              string `json:"note,omitempty"`
}

type PropertySpec struct {
	Level       string        `json:"level"`
	Explanation string        `json:"explanation"`
	Bounds      string        `json:"bounds"`
	Assumptions []string      `json:"assumptions"`
	Harnesses   []HarnessSpec `json:"harnesses"`
}

type knownFinding struct {
	Kind     string // finding | fixed
	Property string
	Sig      string
	Text     string
}

func loadKnownFindings(path string) []knownFinding {
	f, err := os.Open(path)
	if err != nil {
		return nil
	}
	defer f.Close()
	var out []knownFinding
	sc := bufio.NewScanner(f)
	for sc.Scan() {
		line := strings.TrimSpace(sc.Text())
		if line == "" || strings.HasPrefix(line, "#") {
			continue
		}
		var k knownFinding
		switch {
		case strings.HasPrefix(line, "finding:"):
			k.Kind = "finding"
			line = strings.TrimSpace(strings.TrimPrefix(line, "finding:"))
		case strings.HasPrefix(line, "fixed:"):
			k.Kind = "fixed"
			line = strings.TrimSpace(strings.TrimPrefix(line, "fixed:"))
		default:
			continue
		}
		for {
			fields := strings.SplitN(line, " ", 2)
			tok := fields[0]
			if strings.HasPrefix(tok, "property=") {
				k.Property = strings.TrimPrefix(tok, "property=")
			} else if strings.HasPrefix(tok, "sig=") {
				k.Sig = strings.TrimPrefix(tok, "sig=")
			} else {
				break
			}
			if len(fields) < 2 {
				line = ""
				break
			}
			line = strings.TrimSpace(fields[1])
		}
		k.Text = line
		out = append(out, k)
	}
	return out
}

func violSig(v *Violation) string {
	return v.Harness + "/" + strings.ReplaceAll(v.Label, " ", "_")
}

func cmdRun(args []string) int {
	fs := flag.NewFlagSet("run", flag.ExitOnError)
	prop := fs.String("property", "", "property id")
	tier := fs.String("tier", "quick", "quick|thorough")
	repo := fs.String("repo", repoDir(), "repo")
	workers := fs.Int("workers", runtime.NumCPU(), "workers")
	verbose := fs.Bool("v", false, "verbose")
	only := fs.String("only", "", "run only harnesses whose name contains this")
	noEvidence := fs.Bool("no-evidence", false, "do not write the evidence file")
	overrides := paramFlags{}
	fs.Var(overrides, "p", "override a harness parameter k=v (self-validation runs)")
	scOverride := fs.String("scenarios", "", "comma-separated scenario numbers replacing the registered lists (self-validation runs)")
	fs.Parse(args)
	vd := verifDir()
	seed := 0
	if s := os.Getenv("VERIF_SEED"); s != "" {
		fmt.Sscan(s, &seed)
	}
	t0 := time.Now()

	var index map[string]*PropertySpec
	b, err := os.ReadFile(filepath.Join(vd, "harness", "index.json"))
	if err != nil {
		fmt.Println("cannot read index:", err)
		return 2
	}
	if err := json.Unmarshal(b, &index); err != nil {
		fmt.Println("bad index.json:", err)
		return 2
	}
	spec := index[*prop]
	if spec == nil {
		fmt.Println("unknown property", *prop)
		return 2
	}
	known := loadKnownFindings(filepath.Join(vd, "KNOWN_FINDINGS"))

	// load all needed packages at once
	pkgSet := map[string]bool{}
	for _, h := range spec.Harnesses {
		pkgSet[h.Pkg] = true
	}
	var pkgs []string
	for p := range pkgSet {
		pkgs = append(pkgs, p)
	}
	sort.Strings(pkgs)
	l, err := Load(*repo, filepath.Join(vd, "harness"), pkgs)
	if err != nil {
		fmt.Printf("INCONCLUSIVE property=%s reason=load-error\n%v\n", *prop, err)
		writeEvidenceFailure(vd, *prop, *tier, seed, spec, "load error: "+err.Error(), time.Since(t0), *noEvidence)
		return 2
	}
	loadS := time.Since(t0).Seconds()

	timeoutMs := 60000
	if *tier == "thorough" {
		timeoutMs = 300000
	}
	var results []*HarnessResult
	var inconclusive []string
	type hv struct {
		pkg string
		v   Violation
	}
	var allViols []hv
	for _, h := range spec.Harnesses {
		if h.Tier == "thorough" && *tier != "thorough" {
			continue
		}
		if *only != "" && !strings.Contains(h.Fn, *only) {
			continue
		}
		f := l.Func(ModulePath+"/"+h.Pkg, h.Fn)
		if f == nil {
			inconclusive = append(inconclusive, "harness not found: "+h.Fn)
			continue
		}
		params := map[string]int{}
		for k, v := range h.Quick {
			params[k] = v
		}
		if *tier == "thorough" {
			for k, v := range h.Thorough {
				params[k] = v
			}
		}
		for k, v := range overrides {
			params[k] = v
		}
		var res *HarnessResult
		if h.Mode == "sched" {
			schedTimeout := timeoutMs
			if schedTimeout > 60000 {
				schedTimeout = 60000 // schedule queries: one minute each in every tier
			}
			list := h.QuickScenarios
			if *tier == "thorough" {
				list = h.ThoroughScenarios
			}
			if *scOverride != "" {
				list = nil
				for _, x := range strings.Split(*scOverride, ",") {
					var n int
					if _, err := fmt.Sscan(x, &n); err == nil {
						list = append(list, n)
					}
				}
			}
			res = RunSchedList(l, f, params, list, *workers, schedTimeout, *verbose)
		} else {
			ex := &Explorer{L: l, Fn: f, Params: params, Workers: *workers, TimeoutMs: timeoutMs, Verbose: *verbose}
			if mp, ok := params["max_paths"]; ok {
				ex.MaxPaths = mp
			}
			for _, k := range known {
				if k.Kind == "finding" && k.Property == *prop && strings.HasPrefix(k.Sig, h.Fn+"/") {
					ex.StopViolations = 200 // keep looking past a known finding
				}
			}
			res = ex.Run()
		}
		results = append(results, res)
		if *verbose {
			printResult(res)
		} else {
			fmt.Printf("  %s: paths=%d asserts=%d discharged=%d trivial=%d violations=%d queries=%d solver=%.1fs wall=%.1fs\n",
				res.Harness, res.Paths, res.Asserts, res.Discharged, res.Trivial, len(res.Violations), res.Queries, res.SolveTime.Seconds(), res.Wall.Seconds())
		}
		for msg, n := range res.EngineErrors {
			inconclusive = append(inconclusive, fmt.Sprintf("%s: engine error x%d: %s", h.Fn, n, msg))
		}
		if res.Unknown > 0 || res.NUnknown > 0 {
			if h.Mode == "sched" {
				// a schedule query the solver did not decide in time leaves its
				// combination undecided (counted, outside the claim)
				if res.Undecided == nil {
					res.Undecided = map[string]int{}
				}
				res.Undecided["solver gave no verdict within the time limit"] += res.Unknown + res.NUnknown
			} else {
				inconclusive = append(inconclusive, fmt.Sprintf("%s: %d solver unknown/timeout", h.Fn, res.Unknown+res.NUnknown))
			}
		}
		for _, e := range res.SolverErrors {
			inconclusive = append(inconclusive, h.Fn+": solver error: "+e)
		}
		for st, n := range res.Statuses {
			if st == "end:unwind" || st == "end:steps" || st == "end:infeasible" {
				inconclusive = append(inconclusive, fmt.Sprintf("%s: %d paths ended with %s (bound insufficient)", h.Fn, n, st))
			}
		}
		if res.MaxPaths {
			inconclusive = append(inconclusive, h.Fn+": path budget exhausted")
		}
		for _, lab := range h.Reach {
			if res.Reached[lab] == 0 {
				inconclusive = append(inconclusive, fmt.Sprintf("%s: VACUOUS reach label %q never covered", h.Fn, lab))
			}
		}
		for _, v := range res.Violations {
			allViols = append(allViols, hv{h.Pkg, v})
		}
	}

	// ---- replay distinct violations natively ----
	type sigInfo struct {
		pkg       string
		first     *Violation
		count     int
		confirmed bool
		tried     int
		result    string
		path      string
	}
	sigs := map[string]*sigInfo{}
	var sigOrder []string
	for i := range allViols {
		v := &allViols[i].v
		s := violSig(v)
		si := sigs[s]
		if si == nil {
			si = &sigInfo{pkg: allViols[i].pkg, first: v}
			sigs[s] = si
			sigOrder = append(sigOrder, s)
		}
		si.count++
	}
	natives := map[string]*NativeTest{}
	defer func() {
		for _, nt := range natives {
			nt.Close()
		}
	}()
	replayDir := filepath.Join(vd, "replays")
	for _, s := range sigOrder {
		si := sigs[s]
		nkey := si.pkg
		if si.first.SchedFree {
			nkey += "#race"
		}
		nt := natives[nkey]
		if nt == nil {
			var err error
			if si.first.SchedFree {
				nt, err = BuildNativeTestRace(*repo, filepath.Join(vd, "harness"), si.pkg)
			} else {
				nt, err = BuildNativeTest(*repo, filepath.Join(vd, "harness"), si.pkg)
			}
			if err != nil {
				inconclusive = append(inconclusive, "native replay build failed: "+err.Error())
				natives[nkey] = &NativeTest{}
				continue
			}
			natives[nkey] = nt
		}
		if nt.Bin == "" {
			continue
		}
		// try up to 3 witnesses of this signature
		for i := range allViols {
			v := &allViols[i].v
			if violSig(v) != s || si.tried >= 3 || si.confirmed {
				continue
			}
			si.tried++
			path := filepath.Join(replayDir, fmt.Sprintf("%s_%s.json", *prop, sanitize(s)))
			if err := writeReplayFile(path, *prop, si.pkg, v); err != nil {
				continue
			}
			res, _ := nt.Run(path, 20*time.Second)
			si.result = res
			si.path = path
			if confirms(v, res) {
				si.confirmed = true
				v.Confirmed = "native:" + res
				si.first = v
			}
		}
	}

	// ---- classify ----
	nViol := 0
	var knownLines, violLines []string
	for _, s := range sigOrder {
		si := sigs[s]
		if !si.confirmed {
			listed := false
			for _, k := range known {
				if k.Kind == "finding" && k.Property == *prop && k.Sig == s {
					listed = true
					knownLines = append(knownLines, fmt.Sprintf("KNOWN-FINDING: property=%s sig=%s %s (solver witness; the native replay did not reproduce it in this run: %s)", *prop, s, k.Text, si.result))
				}
			}
			if !listed {
				inconclusive = append(inconclusive, fmt.Sprintf("counterexample %s not reproduced natively (%s)", s, si.result))
			}
			continue
		}
		isKnown := false
		for _, k := range known {
			if k.Kind == "finding" && k.Property == *prop && k.Sig == s {
				isKnown = true
				knownLines = append(knownLines, fmt.Sprintf("KNOWN-FINDING: property=%s sig=%s %s", *prop, s, k.Text))
			}
		}
		if isKnown {
			continue
		}
		nViol++
		violLines = append(violLines, fmt.Sprintf("VIOLATION property=%s replay=%s", *prop, si.path))
		fmt.Printf("  violation %s (%d paths) native=%s\n", s, si.count, si.result)
	}
	// remove replay files of signatures that are not reported
	for _, s := range sigOrder {
		si := sigs[s]
		reported := false
		for _, vl := range violLines {
			if strings.HasSuffix(vl, si.path) {
				reported = true
			}
		}
		if !reported && si.path != "" && os.Getenv("VERIF_KEEP_REPLAYS") == "" {
			os.Remove(si.path)
		}
	}

	// ---- cross-check sampled queries with other solvers ----
	cross := crossCheck(results, *tier, seed)
	if cross.Disagree > 0 {
		inconclusive = append(inconclusive, fmt.Sprintf("solver disagreement on %d sampled queries", cross.Disagree))
	}

	wall := time.Since(t0)
	if !*noEvidence {
		writeEvidence(vd, *prop, *tier, seed, spec, results, nViol, inconclusive, knownLines, cross, loadS, wall)
	}
	for _, k := range knownLines {
		fmt.Println(k)
	}
	if nViol > 0 {
		for _, vl := range violLines {
			fmt.Println(vl)
		}
		return 1
	}
	if len(inconclusive) > 0 {
		sort.Strings(inconclusive)
		for i, r := range inconclusive {
			if i < 12 {
				fmt.Printf("INCONCLUSIVE property=%s reason=%s\n", *prop, r)
			}
		}
		return 2
	}
	fmt.Printf("OK property=%s tier=%s wall=%.1fs\n", *prop, *tier, wall.Seconds())
	return 0
}

func sanitize(s string) string {
	var sb strings.Builder
	for _, c := range s {
		switch {
		case c >= 'a' && c <= 'z', c >= 'A' && c <= 'Z', c >= '0' && c <= '9', c == '_', c == '-':
			sb.WriteRune(c)
		default:
			sb.WriteByte('_')
		}
	}
	r := sb.String()
	if len(r) > 120 {
		r = r[:120]
	}
	return r
}

type crossResult struct {
	Checked  int
	Disagree int
	Solvers  []string
	Seconds  float64
}

func crossCheck(results []*HarnessResult, tier string, seed int) crossResult {
	t0 := time.Now()
	cr := crossResult{Solvers: []string{"z3-new 5.1.0", "cvc5 1.0"}}
	limit := 6
	if tier == "thorough" {
		limit = 40
	}
	for _, r := range results {
		for _, q := range r.CrossQueries {
			if cr.Checked >= limit {
				break
			}
			cr.Checked++
			for _, argv := range [][]string{{"z3-new", "-in", "-smt2", "-T:60"}, {"cvc5", "--lang=smt2", "--tlimit=60000"}} {
				res, _ := RunScript(q.Script, argv, 70*time.Second)
				if res != Unknown && res.String() != q.Verdict {
					cr.Disagree++
					fmt.Printf("  SOLVER DISAGREEMENT on %s: z3=%s %s=%s\n", q.Label, q.Verdict, argv[0], res)
				}
			}
		}
	}
	cr.Seconds = time.Since(t0).Seconds()
	return cr
}

func writeEvidenceFailure(vd, prop, tier string, seed int, spec *PropertySpec, reason string, wall time.Duration, skip bool) {
	if skip {
		return
	}
	ev := map[string]interface{}{
		"property_id": prop, "tier": tier, "seed": seed, "level": spec.Level,
		"coverage": map[string]interface{}{
			"explanation": "run failed before exploration: " + reason, "evaluations": 0, "distinct_nontrivial": 0,
		},
		"wall_s": wall.Seconds(), "violations": 0, "inconclusive": []string{reason},
	}
	b, _ := json.MarshalIndent(ev, "", " ")
	os.MkdirAll(filepath.Join(vd, "evidence"), 0o755)
	os.WriteFile(filepath.Join(vd, "evidence", prop+".json"), b, 0o644)
}

func writeEvidence(vd, prop, tier string, seed int, spec *PropertySpec, results []*HarnessResult, nViol int,
	inconclusive, knownLines []string, cross crossResult, loadS float64, wall time.Duration) {
	funcs := map[string]bool{}
	stubs := map[string]bool{}
	paths, queries, asserts, trivial, discharged, nsat, nunsat, nunk := 0, 0, 0, 0, 0, 0, 0, 0
	distinct := 0
	distinctPath := 0
	var solverS float64
	var samples []interface{}
	var perHarness []interface{}
	reach := map[string]int{}
	states, transitions, validated := 0, 0, 0
	undecided := map[string]int{}
	nUndecided := 0
	for _, r := range results {
		for k, n := range r.Undecided {
			// scenario numbers are dropped from the key: one line per reason
			key := k
			if i := strings.Index(key, ": "); strings.HasPrefix(key, "scenario ") && i > 0 {
				key = key[i+2:]
			}
			if strings.HasPrefix(key, "time budget") {
				if j := strings.Index(key, ":"); j > 0 {
					key = key[:j] + ": not every trace combination examined"
				}
			}
			if strings.HasPrefix(key, "combination budget") {
				if j := strings.Index(key, ":"); j > 0 {
					key = key[:j] + ": not every trace combination examined"
				}
			}
			undecided[r.Harness+": "+key] += n
			nUndecided += n
		}
		for f := range r.Funcs {
			funcs[f] = true
		}
		for s := range r.Stubs {
			stubs[s] = true
		}
		paths += r.Paths
		queries += r.Queries
		asserts += r.Asserts
		trivial += r.Trivial
		discharged += r.Discharged
		nsat += r.NSat
		nunsat += r.NUnsat
		nunk += r.NUnknown
		distinct += len(r.Distinct)
		distinctPath += len(r.DistinctPath)
		solverS += r.SolveTime.Seconds()
		for _, s := range r.Samples {
			if len(samples) < 12 {
				samples = append(samples, s)
			}
		}
		for k, n := range r.Reached {
			reach[r.Harness+":"+k] += n
		}
		states += r.SchedStates
		transitions += r.SchedTransitions
		validated += r.SchedValidated
		perHarness = append(perHarness, map[string]interface{}{
			"harness": r.Harness, "params": r.Params, "paths": r.Paths, "path_statuses": r.Statuses,
			"assertions_checked": r.Asserts, "assertions_trivially_true": r.Trivial, "assertions_discharged_unsat": r.Discharged,
			"solver_queries": r.Queries, "solver_time_s": r.SolveTime.Seconds(), "wall_s": r.Wall.Seconds(),
			"violations_found": len(r.Violations), "ssa_instructions_executed": r.Steps, "max_instructions_on_one_path": r.MaxStepsPath,
		})
	}
	var fl []string
	for f := range funcs {
		if strings.Contains(f, "verif") || strings.Contains(f, "VerifH_") {
			continue
		}
		fl = append(fl, f)
	}
	sort.Strings(fl)
	if len(samples) == 0 {
		samples = append(samples, map[string]interface{}{"note": "no assertion was reached"})
	}
	cov := map[string]interface{}{
		"explanation":                      spec.Explanation + " Decided by symbolic execution of the real SSA (go/ssa built from the current working tree of the repository) with z3 deciding every assertion on every feasible path; counterexamples are replayed natively before being reported.",
		"evaluations":                      queries + trivial,
		"distinct_nontrivial":              distinct + distinctPath,
		"rule":                             "evaluations = SMT queries sent to z3 (branch feasibility + negated assertions; field queries) + assertion evaluations that folded to a constant on their path (field assertions_trivially_true). distinct_nontrivial = distinct (assertion label, path decision list) pairs established with the solver: (a) assertions whose negation z3 refuted under the path condition (distinct_refuted_by_solver) plus (b) assertions that folded to true on a path whose path condition is symbolic, i.e. they hold for every input of a region whose feasibility and boundaries the solver decided (distinct_on_solver_decided_paths). Assertions on paths without any symbolic decision are not counted.",
		"distinct_refuted_by_solver":       distinct,
		"distinct_on_solver_decided_paths": distinctPath,
		"samples":                          samples,
		"functions_encoded":                fl,
		"functions_encoded_count":          len(fl),
		"stubs_and_models_used":            SortedKeys(stubs),
		"bounds":                           spec.Bounds,
		"paths":                            paths,
		"queries":                          queries,
		"queries_sat":                      nsat,
		"queries_unsat":                    nunsat,
		"queries_unknown":                  nunk,
		"assertions_checked":               asserts,
		"assertions_trivially_true":        trivial,
		"assertions_discharged_unsat":      discharged,
		"solver_time_s":                    solverS,
		"load_and_ssa_build_s":             loadS,
		"reach_labels":                     reach,
		"per_harness":                      perHarness,
		"cross_checked":                    map[string]interface{}{"queries": cross.Checked, "disagreements": cross.Disagree, "solvers": cross.Solvers, "seconds": cross.Seconds},
		"inconclusive":                     inconclusive,
		"undecided_outside_bound":          undecided,
		"undecided_total":                  nUndecided,
		"known_findings_matched":           knownLines,
		"solver":                           "z3 4.8.12 (/usr/bin/z3 -in, incremental, :global-declarations)",
		"exhaustive":                       false,
	}
	if spec.Level == "model_checking" {
		cov["states"] = states
		cov["transitions"] = transitions
		cov["traces_validated_against_impl"] = validated
	}
	ev := map[string]interface{}{
		"property_id": prop, "tier": tier, "seed": seed, "level": spec.Level,
		"coverage": cov, "assumptions": spec.Assumptions,
		"wall_s": wall.Seconds(), "violations": nViol,
	}
	b, _ := json.MarshalIndent(ev, "", " ")
	os.MkdirAll(filepath.Join(vd, "evidence"), 0o755)
	os.WriteFile(filepath.Join(vd, "evidence", prop+".json"), b, 0o644)
}

func cmdReplay(args []string) int {
	if len(args) < 1 {
		fmt.Println("usage: p9sym replay <file>")
		return 2
	}
	b, err := os.ReadFile(args[0])
	if err != nil {
		fmt.Println(err)
		return 2
	}
	var rf replayFile
	if err := json.Unmarshal(b, &rf); err != nil {
		fmt.Println(err)
		return 2
	}
	nt, err := BuildNativeTest(repoDir(), filepath.Join(verifDir(), "harness"), rf.Pkg)
	if err != nil {
		fmt.Println(err)
		return 2
	}
	defer nt.Close()
	abs, _ := filepath.Abs(args[0])
	res, out := nt.Run(abs, 30*time.Second)
	fmt.Println("native replay result:", res)
	v := &Violation{Kind: rf.Kind, Label: rf.Label}
	if confirms(v, res) {
		fmt.Printf("VIOLATION property=%s replay=%s\n", rf.Property, abs)
		return 1
	}
	if os.Getenv("VERIF_VERBOSE") != "" {
		fmt.Println(out)
	}
	return 0
}

func cmdSelftest(args []string) int {
	return selftest()
}
