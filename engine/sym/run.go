package sym

func cmdRun(args []string) int      { return 2 }
func cmdReplay(args []string) int   { return 2 }
func cmdSelftest(args []string) int { return 0 }
