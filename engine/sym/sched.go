package sym

// ThreadTrace is one per-thread event trace (schedule layer, phase A).
type ThreadTrace struct {
	Thread string
	Events []Event
}

func (in *Interp) threadCellEvent(p *Value, write, atomic bool) {}
func (in *Interp) threadMapEvent(m *Map, kind string, key Value) {}
func (in *Interp) threadAtomicRMW(p *Value, op string, old, nv *Term) *Term {
	*p = nv
	return nv
}
func (in *Interp) threadUserEvent(e Event) {}
func (in *Interp) declareThread(fr *frame, name string, fn Value) {
	panic(engineErr{"thread mode not available"})
}

// RunSched runs a schedule-layer harness (placeholder until the layer is built).
func RunSched(l *Loaded, f interface{}, params map[string]int, workers, timeoutMs int, verbose bool) *HarnessResult {
	return &HarnessResult{Harness: "sched", EngineErrors: map[string]int{"schedule layer not built": 1}, Statuses: map[string]int{}, Reached: map[string]int{}, Distinct: map[string]bool{}, Funcs: map[string]bool{}, Stubs: map[string]bool{}}
}
