package sym

import (
	"fmt"
	"go/types"
	"os"
	"sort"
	"strings"
	"sync"
	"time"

	"golang.org/x/tools/go/ssa"
)

// ======================================================================
// Schedule layer (DESIGN.md section 3).
//
// Phase A: every thread declared with verifThread is executed ALONE from the
// state the harness built, by the same interpreter, with synchronisation and
// every access to a pre-existing cell recorded as an event. Reads of cells
// that another thread writes fork over their read-from candidates; atomic
// counters are symbolic (initial + net delta of the other threads' RMWs that
// precede). Phase B: for every combination of traces one SMT query per
// property over integer timestamps decides whether SOME interleaving
// consistent with mutexes, channels, WaitGroups and the chosen read-froms
// violates it.
// ======================================================================

// SEvent is one event of a thread trace.
type SEvent struct {
	Kind string // acq rel rd wr ard awr rmw mrd mwr mkeys chan-close chan-recv chan-send wg-add wg-wait user spawn
	Obj  string // stable object / cell name
	Mode string // R | W for locks
	Self bool   // acquire of a lock the thread already holds (self dead-lock)
	// reads
	RF string // "" = own view (initial value or own last write); else "thread/trace/eventIdx" of the write read from
	// writes
	ValKey  string // printable value (for matching / reports)
	val     Value  // transferable value, if any
	foreign bool   // value not transferable to another run
	// atomics
	Delta int64 // RMW delta (add)
	X     *Term // symbolic "net delta of other threads before me" introduced at this access
	// user
	Args []string
	N    int64
	Pos  string
	// locks held at a write: mutex -> "mode/sectionOrdinal"
	Locks map[string]lockRef
}

type lockRef struct {
	Mode string
	Sec  int
}

func (e *SEvent) String() string {
	s := e.Kind + " " + e.Obj
	if e.Mode != "" {
		s += " " + e.Mode
	}
	if e.RF != "" {
		s += " rf=" + e.RF
	}
	if e.ValKey != "" {
		s += " val=" + e.ValKey
	}
	if len(e.Args) > 0 {
		s += " " + strings.Join(e.Args, ",")
	}
	if e.Self {
		s += " [SELF]"
	}
	return s
}

// ThreadTrace is one per-thread event trace (phase A).
type ThreadTrace struct {
	Thread string
	ID     int
	Events []*SEvent
	PC     []*Term // path condition over X variables
	Status string  // done | deadlock-self | blocked | panic | foreign | unwind
	Msg    string
	tc     *TermCtx
	key    string
}

// candidate write another thread performed on a cell this thread reads.
type rfCand struct {
	ID      string // thread/value
	Thread  string
	Trace   int
	Val     Value
	ValKey  string
	Foreign bool
	Delete  bool               // map delete
	Locks   map[string]lockRef // locks the writer held
	LastIn  map[string]bool    // per held lock: last write to the cell within that critical section
}

type schedShared struct {
	// cell -> candidates from OTHER threads (filled between rounds)
	cands map[string]map[string][]rfCand // thread -> cell -> candidates
	// atomic cells touched by other threads: thread -> cell -> true
	atomics map[string]map[string]bool
	// possible net deltas the other threads can have applied: thread -> cell -> values
	deltas map[string]map[string][]int64
	// per reader thread and cell: for every OTHER thread, the delta sequences of its traces
	seqs map[string]map[string][]otherSeqs
}

type otherSeqs struct {
	Thread string
	Seqs   [][]int64 // one delta sequence per trace of that thread
}

type threadCtxFull struct {
	name      string
	index     int
	cells     map[*Value]string // registered pre-existing cells
	maps      map[*Map]string
	chans     map[*Chan]string
	objByName map[string]Value // reverse: for transferring pointers
}

// ---------- registration of the pre-existing heap ----------

type heapWalker struct {
	in        *Interp
	cells     map[*Value]string
	maps      map[*Map]string
	chans     map[*Chan]string
	byName    map[string]Value
	seenSlice map[*Value]bool
	n         int
}

func (w *heapWalker) name(prefix string) string {
	w.n++
	return fmt.Sprintf("%s%d", prefix, w.n)
}

func (w *heapWalker) cell(p *Value) {
	if p == nil {
		return
	}
	if _, ok := w.cells[p]; ok {
		return
	}
	nm := w.name("c")
	w.cells[p] = nm
	w.byName[nm] = p
	w.value(*p, p)
}

func (w *heapWalker) value(v Value, self *Value) {
	switch x := v.(type) {
	case Struct:
		for i := range x {
			w.cell(&x[i])
		}
	case Array:
		if len(x) > 64 {
			return // large tables (registry) are not walked element-wise
		}
		for i := range x {
			w.cell(&x[i])
		}
	case Slice:
		if len(x) > 64 {
			return
		}
		for i := range x[:cap(x)] {
			w.cell(&x[:cap(x)][i])
		}
	case *Value:
		w.cell(x)
	case Iface:
		if x.T != nil {
			w.value(x.V, nil)
		}
	case *Map:
		if x == nil {
			return
		}
		if _, ok := w.maps[x]; ok {
			return
		}
		nm := w.name("m")
		w.maps[x] = nm
		w.byName[nm] = x
		for _, e := range x.ent {
			w.value(e.k, nil)
			w.value(e.v, nil)
		}
	case *Chan:
		if x == nil {
			return
		}
		if _, ok := w.chans[x]; !ok {
			nm := w.name("ch")
			w.chans[x] = nm
			w.byName[nm] = x
		}
	case *Closure:
		if x != nil {
			for _, e := range x.Env {
				w.value(e, nil)
			}
		}
	case UnsafePtr:
		if b, ok := x.P.(*poolBag); ok && b != nil {
			_ = b
		}
	}
}

// registerHeap walks everything reachable from the thread closures.
func (in *Interp) registerHeap(roots []Value) *threadCtxFull {
	w := &heapWalker{in: in, cells: map[*Value]string{}, maps: map[*Map]string{}, chans: map[*Chan]string{}, byName: map[string]Value{}}
	for _, r := range roots {
		w.value(r, nil)
	}
	return &threadCtxFull{cells: w.cells, maps: w.maps, chans: w.chans, objByName: w.byName}
}

// ---------- thread mode hooks ----------

func (in *Interp) schedOn() bool { return in.thread != nil && in.thread.full != nil }

func (in *Interp) sev(e *SEvent) *SEvent {
	in.thread.trace.Events = append(in.thread.trace.Events, e)
	return e
}

func (in *Interp) valKeyOf(v Value) (string, bool) {
	full := in.thread.full
	switch x := v.(type) {
	case nil:
		return "nil", true
	case *Term:
		if x.IsConst() {
			return fmt.Sprintf("%d", x.K), true
		}
		return "sym", false
	case string:
		return "s:" + x, true
	case *Value:
		if x == nil {
			return "nil", true
		}
		if n, ok := full.cells[x]; ok {
			return "&" + n, true
		}
		return full.name + ":" + in.objName(x), false
	case *Map:
		if x == nil {
			return "nil", true
		}
		if n, ok := full.maps[x]; ok {
			return n, true
		}
		return fmt.Sprintf("%s:map%d", full.name, x.ID), false
	case *Chan:
		if x == nil {
			return "nil", true
		}
		if n, ok := full.chans[x]; ok {
			return n, true
		}
		// a channel created by this thread: transferable as an identity only
		return fmt.Sprintf("%s:ch%d", in.thread.full.name, x.ID), true
	case Iface:
		if x.T == nil {
			return "nil", true
		}
		k, ok := in.valKeyOf(x.V)
		return x.T.String() + "/" + k, ok
	case Struct:
		if len(x) == 0 {
			return "{}", true
		}
	}
	return fmt.Sprintf("%T", v), false
}

// threadCellEvent is called on every load/store of a *Value cell.
func (in *Interp) threadCellEvent(p *Value, write, atomic bool) {
	if !in.schedOn() {
		return
	}
	name, ok := in.thread.full.cells[p]
	if !ok {
		return
	}
	if in.thread.muteCells > 0 {
		return
	}
	kind := "rd"
	if write {
		kind = "wr"
	}
	if atomic {
		kind = "a" + kind
	}
	in.sev(&SEvent{Kind: kind, Obj: name})
}

// schedLoad intercepts loads of contended cells: forks over read-from candidates.
func (in *Interp) schedLoad(p *Value) (Value, bool) {
	if !in.schedOn() || in.thread.muteCells > 0 {
		return nil, false
	}
	name, ok := in.thread.full.cells[p]
	if !ok {
		return nil, false
	}
	cands := in.thread.cands[name]
	if len(cands) == 0 {
		return nil, false
	}
	k := in.pickCand(name, cands)
	if k < 0 {
		return nil, false
	}
	c := cands[k]
	ev := in.thread.trace.Events[len(in.thread.trace.Events)-1]
	ev.RF = c.ID
	if c.Foreign {
		in.thread.trace.Status = "foreign"
		in.thread.trace.Msg = "read of " + name + " would observe an object allocated by thread " + c.Thread
		panic(pathEnd{"thread-end", "foreign"})
	}
	return in.importValue(c.Val), true
}

// importValue maps a value exported by another run into this run.
func (in *Interp) importValue(v Value) Value {
	switch x := v.(type) {
	case exportedRef:
		if o, ok := in.thread.full.objByName[x.name]; ok {
			return o
		}
		if strings.Contains(x.name, ":ch") {
			// foreign channel used as an identity
			if in.thread.foreignChans == nil {
				in.thread.foreignChans = map[string]*Chan{}
			}
			c := in.thread.foreignChans[x.name]
			if c == nil {
				c = &Chan{ID: -1, Cap: x.cap}
				in.thread.foreignChans[x.name] = c
				in.thread.full.chans[c] = x.name
			}
			return c
		}
		panic(engineErr{"importValue: unknown object " + x.name})
	case exportedIface:
		return Iface{T: x.t, V: in.importValue(x.v)}
	}
	return v
}

type exportedRef struct {
	name string
	cap  int
}
type exportedIface struct {
	t types.Type
	v Value
}

// exportValue turns a value into a form transferable to another run.
func (in *Interp) exportValue(v Value) (Value, bool) {
	full := in.thread.full
	switch x := v.(type) {
	case nil:
		return nil, true
	case *Term:
		return x, x.IsConst() // terms are per-context: only constants transfer (re-made on import)
	case string:
		return x, true
	case *Value:
		if x == nil {
			return x, true
		}
		if n, ok := full.cells[x]; ok {
			return exportedRef{name: n}, true
		}
		return nil, false
	case *Map:
		if x == nil {
			return x, true
		}
		if n, ok := full.maps[x]; ok {
			return exportedRef{name: n}, true
		}
		return nil, false
	case *Chan:
		if x == nil {
			return x, true
		}
		if n, ok := full.chans[x]; ok {
			return exportedRef{name: n}, true
		}
		return exportedRef{name: fmt.Sprintf("%s:ch%d", full.name, x.ID), cap: x.Cap}, true
	case Iface:
		if x.T == nil {
			return x, true
		}
		e, ok := in.exportValue(x.V)
		return exportedIface{t: x.T, v: e}, ok
	case Struct:
		if len(x) == 0 {
			return x, true
		}
	}
	return nil, false
}

func (in *Interp) threadMapEvent(m *Map, kind string, key Value) {
	if !in.schedOn() {
		return
	}
	in.thread.lastMapEv = nil
	name, ok := in.thread.full.maps[m]
	if !ok {
		return
	}
	switch kind {
	case "range", "len":
		in.sev(&SEvent{Kind: "mkeys", Obj: name})
		return
	}
	kk, _ := in.valKeyOf(key)
	ek := "mrd"
	if kind == "wr" {
		ek = "mwr"
	}
	in.thread.lastMapEv = in.sev(&SEvent{Kind: ek, Obj: name + "[" + kk + "]"})
}

func (in *Interp) threadAtomicRMW(p *Value, op string, old, nv *Term) *Term {
	if !in.schedOn() {
		*p = nv
		return nv
	}
	name, ok := in.thread.full.cells[p]
	if !ok {
		*p = nv
		return nv
	}
	delta := in.tc.Bin(OpSub, nv, old)
	if !delta.IsConst() {
		panic(engineErr{"atomic RMW with symbolic delta"})
	}
	ev := in.sev(&SEvent{Kind: "rmw", Obj: name, Delta: delta.Int64()})
	// other threads may have moved the counter: value = own view + X
	if in.thread.atomics[name] {
		in.path.nvars++
		x := in.tc.Var(fmt.Sprintf("X_%s_%d_w%d", in.thread.full.name, len(in.thread.trace.Events), nv.W), nv.W)
		ev.X = x
		in.constrainX(name, x)
		seen := in.tc.Bin(OpAdd, nv, x)
		*p = nv // own view keeps own deltas only
		return seen
	}
	*p = nv
	return nv
}

// schedAtomicLoad gives loads of contended atomic cells the same treatment.
func (in *Interp) schedAtomicLoad(p *Value) (Value, bool) {
	if !in.schedOn() {
		return nil, false
	}
	name, ok := in.thread.full.cells[p]
	if !ok || !in.thread.atomics[name] {
		return nil, false
	}
	t, isT := (*p).(*Term)
	if !isT || t.W == 0 {
		return nil, false
	}
	ev := in.thread.trace.Events[len(in.thread.trace.Events)-1]
	x := in.tc.Var(fmt.Sprintf("X_%s_%d_w%d", in.thread.full.name, len(in.thread.trace.Events), t.W), t.W)
	ev.X = x
	in.constrainX(name, x)
	return in.tc.Bin(OpAdd, t, x), true
}

func (in *Interp) threadUserEvent(e Event) {
	if !in.schedOn() {
		return
	}
	in.sev(&SEvent{Kind: "user", Obj: e.Obj, Args: e.Args})
}

// declareThread implements verifThread(name, f).
func (in *Interp) declareThread(fr *frame, name string, fn Value) {
	idx := in.nthreads
	in.nthreads++
	ti := in.param("thread_index", -1)
	if ti < 0 {
		// not in schedule mode: run sequentially
		in.call(fr, fr.callPos, fn, nil)
		return
	}
	if idx == 0 {
		// stable names for everything that exists now; later threads' closures
		// capture the same objects
		in.schedRoots = nil
	}
	in.schedRoots = append(in.schedRoots, fn)
	if in.ex != nil && in.ex.schedNames != nil {
		in.ex.mu.Lock()
		if idx >= len(*in.ex.schedNames) {
			*in.ex.schedNames = append(*in.ex.schedNames, name)
		}
		in.ex.mu.Unlock()
	}
	if idx != ti {
		return
	}
	// register the heap reachable from ALL closures declared so far plus the
	// rest of the harness frame (so that later-declared threads share names)
	roots := append([]Value{}, in.schedRoots...)
	for _, v := range fr.caller.env {
		roots = append(roots, v)
	}
	// deterministic order: env is a Go map -> sort by SSA value name
	type kv struct {
		k string
		v Value
	}
	var kvs []kv
	for k, v := range fr.caller.env {
		kvs = append(kvs, kv{k.Name(), v})
	}
	sort.Slice(kvs, func(i, j int) bool { return kvs[i].k < kvs[j].k })
	roots = roots[:0]
	for _, e := range kvs {
		roots = append(roots, e.v)
	}
	// globals of the package under test (sorted)
	var gs []*ssa.Global
	for g := range in.globals {
		if g.Pkg != nil && strings.HasPrefix(g.Pkg.Pkg.Path(), ModulePath) {
			gs = append(gs, g)
		}
	}
	sort.Slice(gs, func(i, j int) bool { return gs[i].String() < gs[j].String() })
	for _, g := range gs {
		roots = append(roots, in.globals[g])
	}
	full := in.registerHeap(roots)
	full.name = name
	full.index = idx
	sh := in.ex.schedShared
	th := &threadCtx{held: map[*Value]string{}, rdepth: map[*Value]int{}, recvWaits: true, full: full,
		trace: &ThreadTrace{Thread: name, tc: in.tc}}
	if sh != nil {
		th.cands = sh.cands[name]
		th.atomics = sh.atomics[name]
		if sh.deltas != nil {
			th.deltas = sh.deltas[name]
		}
		if sh.seqs != nil {
			th.seqs = sh.seqs[name]
		}
	}
	if th.cands == nil {
		th.cands = map[string][]rfCand{}
	}
	if th.atomics == nil {
		th.atomics = map[string]bool{}
	}
	in.thread = th
	in.sev(&SEvent{Kind: "user", Obj: "start"})
	status := "done"
	msg := ""
	func() {
		defer func() {
			if r := recover(); r != nil {
				switch r := r.(type) {
				case pathEnd:
					switch r.status {
					case "deadlock":
						status, msg = "deadlock-self", r.msg
					case "blocked":
						status, msg = "blocked", r.msg
					case "thread-end":
						status, msg = th.trace.Status, th.trace.Msg
					default:
						panic(r)
					}
				case targetPanic:
					status, msg = "panic", in.panicString(r.v)
				default:
					panic(r)
				}
			}
		}()
		in.call(fr, fr.callPos, fn, nil)
	}()
	th.trace.Status, th.trace.Msg = status, msg
	th.trace.PC = append([]*Term(nil), in.path.pc...)
	// export written values
	panic(pathEnd{"thread-done", name})
}

// ---------- phase A driver ----------

// RunSched runs a schedule harness. With a "scenarios" parameter the harness
// is run once per scenario index (in parallel), results are aggregated.
func RunSched(l *Loaded, fnv interface{}, params map[string]int, workers, timeoutMs int, verbose bool) *HarnessResult {
	return RunSchedList(l, fnv, params, nil, workers, timeoutMs, verbose)
}

// RunSchedList: as RunSched; a non-empty list names the scenarios to run.
func RunSchedList(l *Loaded, fnv interface{}, params map[string]int, list []int, workers, timeoutMs int, verbose bool) *HarnessResult {
	fn := fnv.(*ssa.Function)
	n, multi := params["scenarios"]
	if len(list) > 0 {
		multi, n = true, len(list)
	}
	if !multi {
		return runSchedOne(l, fn, params, workers, timeoutMs, verbose)
	}
	t0 := time.Now()
	agg := &HarnessResult{Harness: fn.Name(), Params: params, Statuses: map[string]int{}, Reached: map[string]int{},
		Distinct: map[string]bool{}, EngineErrors: map[string]int{}, Funcs: map[string]bool{}, Stubs: map[string]bool{}, ViolCount: map[string]int{}}
	first, step := params["scenario_first"], params["scenario_step"]
	if step <= 0 {
		step = 1
	}
	type job struct{ sc int }
	jobs := make(chan int, n)
	if len(list) > 0 {
		for _, sc := range list {
			jobs <- sc
		}
	} else {
		for sc := first; sc < n; sc += step {
			jobs <- sc
		}
	}
	close(jobs)
	var mu sync.Mutex
	var wg sync.WaitGroup
	for w := 0; w < workers; w++ {
		wg.Add(1)
		go func() {
			defer wg.Done()
			for sc := range jobs {
				p := map[string]int{}
				for k, v := range params {
					p[k] = v
				}
				delete(p, "scenarios")
				p["scenario"] = sc
				r := runSchedOne(l, fn, p, 1, timeoutMs, false)
				mu.Lock()
				if os.Getenv("VERIF_SCHED_TIMES") != "" {
					fmt.Fprintf(os.Stderr, "  [scenario %d] wall=%.1fs paths=%d combos=%d viol=%d undecided=%d\n", sc, r.Wall.Seconds(), r.Paths, r.Reached["combinations"], len(r.Violations), len(r.Undecided))
				}
				agg.Paths += r.Paths
				agg.Steps += r.Steps
				agg.Queries += r.Queries
				agg.NSat += r.NSat
				agg.NUnsat += r.NUnsat
				agg.NUnknown += r.NUnknown
				agg.Unknown += r.Unknown
				agg.SolveTime += r.SolveTime
				agg.Asserts += r.Asserts
				agg.Discharged += r.Discharged
				agg.SchedStates += r.SchedStates
				agg.SchedTransitions += r.SchedTransitions
				for k := range r.Distinct {
					agg.Distinct[fmt.Sprintf("s%d/%s", sc, k)] = true
				}
				for k, v := range r.Reached {
					agg.Reached[k] += v
				}
				for k, v := range r.EngineErrors {
					agg.EngineErrors[fmt.Sprintf("scenario %d: %s", sc, k)] += v
				}
				for k, v := range r.Undecided {
					if agg.Undecided == nil {
						agg.Undecided = map[string]int{}
					}
					agg.Undecided[fmt.Sprintf("scenario %d: %s", sc, k)] += v
				}
				for k, v := range r.Statuses {
					agg.Statuses[k] += v
				}
				for k, v := range r.Unwinds {
					if agg.Unwinds == nil {
						agg.Unwinds = map[string]int{}
					}
					agg.Unwinds[k] += v
				}
				for f := range r.Funcs {
					agg.Funcs[f] = true
				}
				for s := range r.Stubs {
					agg.Stubs[s] = true
				}
				for _, v := range r.Violations {
					if v.Params == nil {
						v.Params = map[string]int{}
					}
					v.Params = p
					sig := violSig(&v)
					agg.ViolCount[sig]++
					agg.NViolations++
					if agg.ViolCount[sig] <= 3 {
						agg.Violations = append(agg.Violations, v)
					}
				}
				if len(agg.Samples) < 6 {
					agg.Samples = append(agg.Samples, r.Samples...)
				}
				agg.Reached["scenarios-run"]++
				mu.Unlock()
			}
		}()
	}
	wg.Wait()
	agg.Wall = time.Since(t0)
	return agg
}

func runSchedOne(l *Loaded, fn *ssa.Function, params map[string]int, workers, timeoutMs int, verbose bool) *HarnessResult {
	t0 := time.Now()
	res := &HarnessResult{Harness: fn.Name(), Params: params, Statuses: map[string]int{}, Reached: map[string]int{},
		Distinct: map[string]bool{}, EngineErrors: map[string]int{}, Funcs: map[string]bool{}, Stubs: map[string]bool{}}
	var names []string
	shared := &schedShared{cands: map[string]map[string][]rfCand{}, atomics: map[string]map[string]bool{}}
	var traces [][]*ThreadTrace
	maxRounds := 6
	if v, ok := params["rf_rounds"]; ok {
		maxRounds = v
	}
	prevSig := ""
	converged := false
	{
		// discovery run: declares every thread, runs none
		p := map[string]int{}
		for k, v := range params {
			p[k] = v
		}
		p["thread_index"] = 1 << 20
		ex := &Explorer{L: l, Fn: fn, Params: p, Workers: 1, TimeoutMs: timeoutMs}
		ex.schedNames = &names
		r := ex.Run()
		for m, n := range r.EngineErrors {
			res.EngineErrors[m] += n
		}
		for k, v := range r.Reached {
			res.Reached[k] += v
		}
	}
	for round := 0; round < maxRounds; round++ {
		traces = nil
		nthreads := len(names)
		for ti := 0; ti < nthreads; ti++ {
			p := map[string]int{}
			for k, v := range params {
				p[k] = v
			}
			p["thread_index"] = ti
			ex := &Explorer{L: l, Fn: fn, Params: p, Workers: workers, TimeoutMs: timeoutMs, Verbose: false}
			ex.schedShared = shared
			ex.schedNames = &names
			ex.MaxPaths = 1500
			r := ex.Run()
			if os.Getenv("VERIF_SCHED_DEBUG") != "" {
				st := map[string]int{}
				for _, t := range r.Traces {
					st[t.Status]++
				}
				fmt.Printf("  [sched] round %d thread %d: paths=%d traces=%d %v wall=%.1fs cands=%d\n", round, ti, r.Paths, len(r.Traces), st, r.Wall.Seconds(), len(shared.cands[names[ti]]))
			}
			if r.MaxPaths {
				if res.Undecided == nil {
					res.Undecided = map[string]int{}
				}
				res.Undecided["phase A path budget exhausted (read-from / atomic forks)"]++
			}
			res.Paths += r.Paths
			res.Steps += r.Steps
			res.Queries += r.Queries
			res.NSat += r.NSat
			res.NUnsat += r.NUnsat
			res.NUnknown += r.NUnknown
			res.SolveTime += r.SolveTime
			for f := range r.Funcs {
				res.Funcs[f] = true
			}
			for s := range r.Stubs {
				res.Stubs[s] = true
			}
			for m, n := range r.EngineErrors {
				res.EngineErrors[m] += n
			}
			for m, n := range r.Unwinds {
				if res.Unwinds == nil {
					res.Unwinds = map[string]int{}
				}
				res.Unwinds[m] += n
			}
			for st, n := range r.Statuses {
				if st != "end:thread-done" && st != "end:assume" {
					res.Statuses[st] += n
				}
			}
			res.Violations = append(res.Violations, r.Violations...)
			if len(names) > nthreads {
				nthreads = len(names)
			}
			tt := r.Traces
			sort.Slice(tt, func(i, j int) bool {
				di, dj := tt[i].Status == "done", tt[j].Status == "done"
				if di != dj {
					return !di // traces that end blocked / in a self re-lock first
				}
				return tt[i].sig() < tt[j].sig()
			})
			// blocked traces first (each part spread over its skeletons)
			nb := 0
			for nb < len(tt) && tt[nb].Status != "done" {
				nb++
			}
			tt = append(diversify(tt[:nb:nb]), diversify(tt[nb:])...)
			for i, t := range tt {
				t.ID = i
			}
			traces = append(traces, tt)
		}
		if round == 0 {
			// round 0 has no read-from candidates: every thread ran alone from
			// the common start state. What its client observes there is the
			// reference of the isolation query.
			res.soloReplies = make([]map[string]bool, len(traces))
			for i, tt := range traces {
				res.soloReplies[i] = map[string]bool{}
				for _, t := range tt {
					res.soloReplies[i][replyOf(t)] = true
				}
			}
		}
		// candidates for the next round (accumulated over the rounds: monotone, so the iteration converges)
		nsh := buildCandidates(names, traces)
		mergeCandidates(nsh, shared)
		shared = nsh
		sig := candSig(shared)
		if sig == prevSig {
			converged = true
			break
		}
		prevSig = sig
	}
	if !converged {
		if res.Undecided == nil {
			res.Undecided = map[string]int{}
		}
		res.Undecided["read-from fixpoint not reached within the round bound"]++
	}
	ntr := 0
	nev := 0
	for _, tt := range traces {
		ntr += len(tt)
		for _, t := range tt {
			nev += len(t.Events)
		}
	}
	res.SchedStates = ntr
	res.SchedTransitions = nev
	if verbose {
		for i, tt := range traces {
			fmt.Printf("  thread %s: %d traces\n", names[i], len(tt))
			for _, t := range tt {
				fmt.Printf("    trace %d status=%s events=%d pc=%d %s\n", t.ID, t.Status, len(t.Events), len(t.PC), t.Msg)
				if verbose {
					for k, e := range t.Events {
						if e.Kind == "rd" || e.Kind == "wr" || e.Kind == "mrd" {
							if e.RF == "" {
								continue
							}
						}
						fmt.Printf("       %3d %s\n", k, e)
					}
				}
			}
		}
	}
	phaseB(l, res, names, traces, params, timeoutMs, verbose)
	res.Wall = time.Since(t0)
	return res
}

// replyOf: the "reply" user events of a trace (what the client observes).
func replyOf(t *ThreadTrace) string {
	var sb strings.Builder
	for _, e := range t.Events {
		if e.Kind == "user" && e.Obj == "reply" {
			sb.WriteString("[" + strings.Join(e.Args, ",") + "]")
		}
	}
	return sb.String()
}

func (t *ThreadTrace) sig() string {
	if t.key != "" {
		return t.key
	}
	var sb strings.Builder
	sb.WriteString(t.Status)
	for _, e := range t.Events {
		sb.WriteString("|")
		sb.WriteString(e.Kind)
		sb.WriteString(e.Obj)
		sb.WriteString(e.Mode)
		sb.WriteString(e.RF)
		sb.WriteString(e.ValKey)
		sb.WriteString(strings.Join(e.Args, ","))
	}
	t.key = sb.String()
	return t.key
}

// buildCandidates computes, per thread, the read-from candidates of every
// cell it reads that some other thread writes, and the atomic cells other
// threads modify.
func buildCandidates(names []string, traces [][]*ThreadTrace) *schedShared {
	sh := &schedShared{cands: map[string]map[string][]rfCand{}, atomics: map[string]map[string]bool{}}
	type wr struct {
		cand rfCand
		cell string
	}
	writes := map[string][]wr{} // thread -> writes
	atom := map[string]map[string]bool{}
	reads := map[string]map[string]bool{}
	for ti, tt := range traces {
		th := names[ti]
		atom[th] = map[string]bool{}
		reads[th] = map[string]bool{}
		seen := map[string]bool{}
		for _, t := range tt {
			for k, e := range t.Events {
				switch e.Kind {
				case "wr", "awr", "mwr":
					key := e.Obj + "=" + e.ValKey + lockSig(e.Locks)
					if seen[key] {
						continue
					}
					seen[key] = true
					lastIn := map[string]bool{}
					for m, lr := range e.Locks {
						last := true
						for k2 := k + 1; k2 < len(t.Events); k2++ {
							e2 := t.Events[k2]
							if (e2.Kind == "wr" || e2.Kind == "awr" || e2.Kind == "mwr") && e2.Obj == e.Obj {
								if l2, ok := e2.Locks[m]; ok && l2.Sec == lr.Sec {
									last = false
								}
							}
						}
						lastIn[m] = last
					}
					writes[th] = append(writes[th], wr{rfCand{ID: th + "/" + e.ValKey, Thread: th, Trace: t.ID, Val: e.val, ValKey: e.ValKey, Foreign: e.foreign, Locks: e.Locks, LastIn: lastIn}, e.Obj})
				case "rmw":
					atom[th][e.Obj] = true
				case "rd", "ard", "mrd":
					reads[th][e.Obj] = true
				}
			}
		}
	}
	for ti := range traces {
		th := names[ti]
		sh.cands[th] = map[string][]rfCand{}
		sh.atomics[th] = map[string]bool{}
		for tj := range traces {
			if tj == ti {
				continue
			}
			o := names[tj]
			for _, w := range writes[o] {
				if reads[th][w.cell] {
					sh.cands[th][w.cell] = append(sh.cands[th][w.cell], w.cand)
				}
			}
			for c := range atom[o] {
				sh.atomics[th][c] = true
			}
		}
	}
	// delta sequences per trace
	sh.seqs = map[string]map[string][]otherSeqs{}
	for ti := range traces {
		th := names[ti]
		sh.seqs[th] = map[string][]otherSeqs{}
		for c := range sh.atomics[th] {
			for tj, tt := range traces {
				if tj == ti {
					continue
				}
				o := otherSeqs{Thread: names[tj]}
				seenSeq := map[string]bool{}
				for _, t := range tt {
					var seq []int64
					for _, e := range t.Events {
						if e.Kind == "rmw" && e.Obj == c {
							seq = append(seq, e.Delta)
						}
					}
					k := fmt.Sprint(seq)
					if !seenSeq[k] {
						seenSeq[k] = true
						o.Seqs = append(o.Seqs, seq)
					}
				}
				if len(o.Seqs) > 0 && len(o.Seqs) < 200 {
					sh.seqs[th][c] = append(sh.seqs[th][c], o)
				}
			}
		}
	}
	// possible net deltas: for each thread and cell, the sums of one prefix sum per other thread
	sh.deltas = map[string]map[string][]int64{}
	prefix := map[string]map[string]map[int64]bool{} // thread -> cell -> prefix sums
	for ti, tt := range traces {
		th := names[ti]
		prefix[th] = map[string]map[int64]bool{}
		for _, t := range tt {
			sums := map[string]int64{}
			for _, e := range t.Events {
				if e.Kind == "rmw" {
					if prefix[th][e.Obj] == nil {
						prefix[th][e.Obj] = map[int64]bool{0: true}
					}
					sums[e.Obj] += e.Delta
					prefix[th][e.Obj][sums[e.Obj]] = true
				}
			}
		}
	}
	for ti := range traces {
		th := names[ti]
		sh.deltas[th] = map[string][]int64{}
		for c := range sh.atomics[th] {
			acc := map[int64]bool{0: true}
			for tj := range traces {
				if tj == ti {
					continue
				}
				ps := prefix[names[tj]][c]
				if len(ps) == 0 {
					continue
				}
				next := map[int64]bool{}
				for a := range acc {
					for p := range ps {
						next[a+p] = true
					}
				}
				acc = next
			}
			var vals []int64
			for v := range acc {
				vals = append(vals, v)
			}
			sort.Slice(vals, func(a, b int) bool { return vals[a] < vals[b] })
			sh.deltas[th][c] = vals
		}
	}
	return sh
}

func candSig(sh *schedShared) string {
	var parts []string
	for th, m := range sh.cands {
		for c, l := range m {
			for _, x := range l {
				parts = append(parts, th+":"+c+"<-"+x.Thread+"="+x.ValKey)
			}
		}
	}
	for th, m := range sh.atomics {
		for c := range m {
			parts = append(parts, th+":A:"+c)
		}
	}
	for th, m := range sh.deltas {
		for c, vs := range m {
			parts = append(parts, fmt.Sprintf("%s:D:%s=%v", th, c, vs))
		}
	}
	sort.Strings(parts)
	return strings.Join(parts, ";")
}

// schedStoreValue annotates the write event just recorded with its value.
func (in *Interp) schedStoreValue(p *Value, v Value) {
	if !in.schedOn() || in.thread.muteCells > 0 {
		return
	}
	if _, ok := in.thread.full.cells[p]; !ok {
		return
	}
	ev := in.thread.trace.Events[len(in.thread.trace.Events)-1]
	if ev.Kind != "wr" && ev.Kind != "awr" {
		return
	}
	switch v.(type) {
	case Struct, Array:
		ev.ValKey = "aggregate"
		ev.foreign = true
		return
	}
	k, _ := in.valKeyOf(v)
	ev.ValKey = k
	e, ok := in.exportValue(v)
	ev.val, ev.foreign = e, !ok
	in.noteWriteLocks(ev)
}

// noteWriteLocks records the locks held at a write (for the atomicity reduction).
func (in *Interp) noteWriteLocks(ev *SEvent) {
	th := in.thread
	if len(th.heldSec) == 0 {
		return
	}
	ev.Locks = map[string]lockRef{}
	for m, r := range th.heldSec {
		ev.Locks[m] = r
		th.ownWrote[fmt.Sprintf("%s|%d|%s", m, r.Sec, ev.Obj)] = true
	}
}

// pickCand chooses what a read of a contended cell observes. Lock-based
// atomicity reduction: if the reader and a candidate write share a mutex (not
// both in read mode), the reader's whole critical section is either after the
// writer's section (it sees the LAST write of that section) or before it (it
// sees none of them); the choice is made once per pair of sections.
// Returns the chosen candidate index, or -1 for the reader's own view.
func (in *Interp) pickCand(cell string, cands []rfCand) int {
	th := in.thread
	if th.decided == nil {
		th.secCount, th.heldSec, th.decided, th.ownWrote = map[string]int{}, map[string]lockRef{}, map[string]bool{}, map[string]bool{}
	}
	type opt struct {
		idx    int
		forced bool
	}
	var opts []opt
	ownAllowed := true
	for i, c := range cands {
		allowed, forced := true, false
		for m, wl := range c.Locks {
			my, held := th.heldSec[m]
			if !held || (my.Mode == "R" && wl.Mode == "R") {
				continue
			}
			key := fmt.Sprintf("%s|%d|%s|%d", m, my.Sec, c.Thread, wl.Sec)
			if d, ok := th.decided[key]; ok {
				if !d {
					allowed = false // my section precedes theirs
				} else if !c.LastIn[m] {
					allowed = false // overwritten later in their section
				} else if th.ownWrote[fmt.Sprintf("%s|%d|%s", m, my.Sec, cell)] {
					allowed = false // I overwrote it since
				} else {
					forced = true
				}
			} else if !c.LastIn[m] {
				allowed = false // only the final value of a critical section is visible outside it
			}
		}
		if allowed {
			opts = append(opts, opt{i, forced})
			if forced {
				ownAllowed = false
			}
		}
	}
	if !ownAllowed {
		var f []opt
		for _, o := range opts {
			if o.forced {
				f = append(f, o)
			}
		}
		opts = f
	}
	n := len(opts)
	if ownAllowed {
		n++
	}
	if n == 0 {
		return -1
	}
	k := 0
	if n > 1 {
		k = in.choice(n, "rf")
	}
	chosen := -1
	if ownAllowed {
		if k > 0 {
			chosen = opts[k-1].idx
		}
	} else {
		chosen = opts[k].idx
	}
	// record the section-order decisions this choice implies
	for i, c := range cands {
		for m, wl := range c.Locks {
			my, held := th.heldSec[m]
			if !held || (my.Mode == "R" && wl.Mode == "R") {
				continue
			}
			key := fmt.Sprintf("%s|%d|%s|%d", m, my.Sec, c.Thread, wl.Sec)
			if _, ok := th.decided[key]; ok {
				continue
			}
			if i == chosen {
				th.decided[key] = true
			} else if chosen == -1 && c.LastIn[m] {
				th.decided[key] = false
			}
		}
	}
	return chosen
}

// schedMapWrite annotates a map write event.
func (in *Interp) schedMapWrite(v Value, deleted bool) {
	if !in.schedOn() {
		return
	}
	ev := in.thread.lastMapEv
	if ev == nil || ev.Kind != "mwr" {
		return
	}
	if deleted {
		ev.ValKey = "<deleted>"
		ev.val = nil
		in.noteWriteLocks(ev)
		return
	}
	k, _ := in.valKeyOf(v)
	ev.ValKey = k
	e, ok := in.exportValue(v)
	ev.val, ev.foreign = e, !ok
	in.noteWriteLocks(ev)
}

// schedMapRead forks a map lookup over the other threads' writes to the key.
// It returns (value, present, overridden).
func (in *Interp) schedMapRead() (Value, bool, bool) {
	if !in.schedOn() {
		return nil, false, false
	}
	ev := in.thread.lastMapEv
	if ev == nil || ev.Kind != "mrd" {
		return nil, false, false
	}
	cands := in.thread.cands[ev.Obj]
	if len(cands) == 0 {
		return nil, false, false
	}
	k := in.pickCand(ev.Obj, cands)
	if k < 0 {
		return nil, false, false
	}
	c := cands[k]
	ev.RF = c.ID
	if c.ValKey == "<deleted>" {
		return nil, false, true
	}
	if c.Foreign {
		in.thread.trace.Status = "foreign"
		in.thread.trace.Msg = "lookup of " + ev.Obj + " would observe an object allocated by thread " + c.Thread
		panic(pathEnd{"thread-end", "foreign"})
	}
	return in.importValue(c.Val), true, true
}

func lockSig(l map[string]lockRef) string {
	var ks []string
	for m, r := range l {
		ks = append(ks, fmt.Sprintf("%s%s%d", m, r.Mode, r.Sec))
	}
	sort.Strings(ks)
	return "@" + strings.Join(ks, ",")
}

// constrainX restricts the symbolic net delta of the other threads to the
// values their traces can actually produce (prefix sums of their RMW deltas).
func (in *Interp) constrainX(cell string, x *Term) {
	th := in.thread
	tc := in.tc
	if os2 := th.seqs[cell]; len(os2) > 0 {
		// X = sum over the other threads of prefixSum[trace][P], with P (how many of that
		// thread's RMWs on this cell precede) non-decreasing along this thread's program order
		if th.prevP == nil {
			th.prevP, th.trVar = map[string]*Term{}, map[string]*Term{}
		}
		sum := tc.BV(x.W, 0)
		all := tc.True
		for _, o := range os2 {
			tr := th.trVar[o.Thread]
			if tr == nil {
				tr = tc.Var("TR_"+th.full.name+"_"+o.Thread, 8)
				th.trVar[o.Thread] = tr
				all = tc.And(all, tc.Cmp(OpUlt, tr, tc.BV(8, uint64(len(o.Seqs)))))
			}
			in.path.nvars++
			p := tc.Var(fmt.Sprintf("P_%s_%d", th.full.name, in.path.nvars), 8)
			key := cell + "|" + o.Thread
			if pp := th.prevP[key]; pp != nil {
				all = tc.And(all, tc.Cmp(OpUle, pp, p))
			}
			th.prevP[key] = p
			val := tc.BV(x.W, 0)
			ok := tc.False
			for ti, seq := range o.Seqs {
				s := int64(0)
				for k := 0; k <= len(seq); k++ {
					if k > 0 {
						s += seq[k-1]
					}
					cond := tc.And(tc.Eq(tr, tc.BV(8, uint64(ti))), tc.Eq(p, tc.BV(8, uint64(k))))
					val = tc.Ite(cond, tc.BV(x.W, uint64(s)), val)
					ok = tc.Or(ok, cond)
				}
			}
			all = tc.And(all, ok)
			sum = tc.Bin(OpAdd, sum, val)
		}
		in.assume(tc.And(all, tc.Eq(x, sum)))
		return
	}
	vals := in.thread.deltas[cell]
	if len(vals) == 0 {
		in.addPC(in.tc.Eq(x, in.tc.BV(x.W, 0)))
		return
	}
	c := in.tc.False
	for _, v := range vals {
		c = in.tc.Or(c, in.tc.Eq(x, in.tc.BV(x.W, uint64(v))))
	}
	in.addPC(c)
}

// mergeCandidates adds the candidates, atomic cells and delta sequences of
// the previous round (old) to the new set.
func mergeCandidates(nw, old *schedShared) {
	if old == nil {
		return
	}
	for th, m := range old.cands {
		if nw.cands[th] == nil {
			nw.cands[th] = map[string][]rfCand{}
		}
		for c, l := range m {
			have := map[string]bool{}
			for _, x := range nw.cands[th][c] {
				have[x.ID+lockSig(x.Locks)] = true
			}
			for _, x := range l {
				if !have[x.ID+lockSig(x.Locks)] {
					nw.cands[th][c] = append(nw.cands[th][c], x)
				}
			}
		}
	}
	for th, m := range old.atomics {
		if nw.atomics[th] == nil {
			nw.atomics[th] = map[string]bool{}
		}
		for c := range m {
			nw.atomics[th][c] = true
		}
	}
	for th, m := range old.seqs {
		if nw.seqs == nil {
			nw.seqs = map[string]map[string][]otherSeqs{}
		}
		if nw.seqs[th] == nil {
			nw.seqs[th] = map[string][]otherSeqs{}
		}
		for c, l := range m {
			for _, o := range l {
				found := false
				for i := range nw.seqs[th][c] {
					if nw.seqs[th][c][i].Thread == o.Thread {
						found = true
						have := map[string]bool{}
						for _, s := range nw.seqs[th][c][i].Seqs {
							have[fmt.Sprint(s)] = true
						}
						for _, s := range o.Seqs {
							if !have[fmt.Sprint(s)] {
								nw.seqs[th][c][i].Seqs = append(nw.seqs[th][c][i].Seqs, s)
							}
						}
					}
				}
				if !found {
					nw.seqs[th][c] = append(nw.seqs[th][c], o)
				}
			}
		}
	}
	for th, m := range old.deltas {
		if nw.deltas[th] == nil {
			nw.deltas[th] = map[string][]int64{}
		}
		for c, vs := range m {
			have := map[int64]bool{}
			for _, v := range nw.deltas[th][c] {
				have[v] = true
			}
			for _, v := range vs {
				if !have[v] {
					nw.deltas[th][c] = append(nw.deltas[th][c], v)
				}
			}
			sort.Slice(nw.deltas[th][c], func(a, b int) bool { return nw.deltas[th][c][a] < nw.deltas[th][c][b] })
		}
	}
}

// diversify reorders traces so that a bounded prefix of the combination space
// sees every behaviour class early: unfinished traces first, then round-robin
// over groups of traces with the same synchronisation skeleton (locks, atomic
// deltas, user events, channel operations).
func diversify(tt []*ThreadTrace) []*ThreadTrace {
	skel := func(t *ThreadTrace) string {
		var sb strings.Builder
		sb.WriteString(t.Status)
		for _, e := range t.Events {
			switch e.Kind {
			case "acq", "rel", "user", "chan-close", "chan-recv", "wg-add", "wg-wait", "cond-reg", "cond-wait", "cond-bcast":
				sb.WriteString("|" + e.Kind + e.Obj + e.Mode + strings.Join(e.Args, ","))
			case "rmw":
				sb.WriteString(fmt.Sprintf("|rmw%s%+d", e.Obj, e.Delta))
			}
		}
		return sb.String()
	}
	groups := map[string][]*ThreadTrace{}
	var order []string
	for _, t := range tt {
		k := skel(t)
		if _, ok := groups[k]; !ok {
			order = append(order, k)
		}
		groups[k] = append(groups[k], t)
	}
	var out []*ThreadTrace
	for round := 0; len(out) < len(tt); round++ {
		for _, k := range order {
			if round < len(groups[k]) {
				out = append(out, groups[k][round])
			}
		}
	}
	return out
}
