package sym

import (
	"fmt"
	"os"
	"sort"
	"strconv"
	"strings"
	"time"
)

// ======================================================================
// Phase B: one SMT query per (combination of traces, property).
// ======================================================================

type bSection struct {
	thread   int
	acq, rel int // event indices (rel = -1: never released in this trace)
	mode     string
	obj      string
}

type bInterval struct {
	thread      int
	enter, exit int // exit = -1: never exited
	op, class   string
	path, entry string
	file, req   string
}

type bCombo struct {
	tc           *TermCtx
	names        []string
	tr           []*ThreadTrace
	T            [][]*Term // timestamps
	cut          []*Term   // nil when not in cut mode
	n            []int     // effective length per thread (excludes a trailing self-acquire)
	base         []*Term
	inconclusive []string
	lastSched    []SchedStep
	keepAll      bool // keep timestamps for every access (race queries)
}

const tsW = 16

func (c *bCombo) ts(i, k int) *Term { return c.T[i][k] }

func (c *bCombo) lt(a, b *Term) *Term { return c.tc.Cmp(OpUlt, a, b) }

// exec: event (i,k) is executed (always true without cuts).
func (c *bCombo) exec(i, k int) *Term {
	if c.cut == nil {
		return c.tc.True
	}
	return c.tc.Cmp(OpUlt, c.tc.BV(tsW, uint64(k)), c.cut[i])
}

func parseTraceRef(rf string) (string, string) {
	// "thread|cell-value" style references are matched semantically: rf = thread name
	i := strings.Index(rf, "/")
	if i < 0 {
		return rf, ""
	}
	return rf[:i], rf[i+1:]
}

// build creates timestamps and the base consistency constraints.
func (c *bCombo) build(withCuts bool) {
	tc := c.tc
	c.T = make([][]*Term, len(c.tr))
	c.n = make([]int, len(c.tr))
	c.base = nil
	c.cut = nil
	// data accesses matter only on cells that another thread of this
	// combination writes (or, for writes, accesses): the others get no timestamp
	wrBy := map[string]map[int]bool{}
	accBy := map[string]map[int]bool{}
	for i, t := range c.tr {
		for _, e := range t.Events {
			switch e.Kind {
			case "wr", "awr", "mwr":
				if wrBy[e.Obj] == nil {
					wrBy[e.Obj] = map[int]bool{}
				}
				wrBy[e.Obj][i] = true
				fallthrough
			case "rd", "ard", "mrd":
				if accBy[e.Obj] == nil {
					accBy[e.Obj] = map[int]bool{}
				}
				accBy[e.Obj][i] = true
			}
		}
	}
	c.keepAll = c.keepAll || false
	for i, t := range c.tr {
		c.n[i] = len(t.Events)
		c.T[i] = make([]*Term, len(t.Events))
		var prev *Term
		for k, e := range t.Events {
			keep := true
			if !c.keepAll {
				switch e.Kind {
				case "rd", "ard", "mrd":
					keep = false
					for j := range wrBy[e.Obj] {
						if j != i {
							keep = true
						}
					}
					if e.X != nil || e.RF != "" {
						keep = true
					}
				case "wr", "awr", "mwr":
					keep = false
					for j := range accBy[e.Obj] {
						if j != i {
							keep = true
						}
					}
				case "mkeys":
					keep = false
				}
			}
			if !keep {
				continue
			}
			c.T[i][k] = tc.Var(fmt.Sprintf("T_%d_%d", i, k), tsW)
			if prev != nil {
				c.base = append(c.base, c.lt(prev, c.T[i][k]))
			} else {
				c.base = append(c.base, c.lt(tc.BV(tsW, 0), c.T[i][k]))
			}
			prev = c.T[i][k]
		}
		if prev != nil {
			c.base = append(c.base, c.lt(prev, tc.BV(tsW, 60000)))
		}
	}
	if withCuts {
		c.cut = make([]*Term, len(c.tr))
		for i := range c.tr {
			c.cut[i] = tc.Var(fmt.Sprintf("cut_%d", i), tsW)
			c.base = append(c.base, tc.Cmp(OpUle, c.cut[i], tc.BV(tsW, uint64(c.n[i]))))
		}
	}
	// path conditions of the traces (over X variables): terms belong to the
	// trace's own context, so they are re-made here by structural copy
	for _, t := range c.tr {
		for _, p := range t.PC {
			c.base = append(c.base, c.copyTerm(t.tc, p, map[*Term]*Term{}))
		}
	}
	// ---- mutexes ----
	secs := c.sections()
	byObj := map[string][]bSection{}
	for _, s := range secs {
		byObj[s.obj] = append(byObj[s.obj], s)
	}
	for _, ss := range byObj {
		for a := 0; a < len(ss); a++ {
			for b := a + 1; b < len(ss); b++ {
				s1, s2 := ss[a], ss[b]
				if s1.thread == s2.thread || (s1.mode == "R" && s2.mode == "R") {
					continue
				}
				// if both acquired: one is released before the other is acquired
				opt1, opt2 := tc.False, tc.False
				if s1.rel >= 0 {
					opt1 = tc.And(c.exec(s1.thread, s1.rel), c.lt(c.ts(s1.thread, s1.rel), c.ts(s2.thread, s2.acq)))
				}
				if s2.rel >= 0 {
					opt2 = tc.And(c.exec(s2.thread, s2.rel), c.lt(c.ts(s2.thread, s2.rel), c.ts(s1.thread, s1.acq)))
				}
				both := tc.And(c.exec(s1.thread, s1.acq), c.exec(s2.thread, s2.acq))
				c.base = append(c.base, tc.Implies(both, tc.Or(opt1, opt2)))
			}
		}
	}
	// ---- plain cells and map keys: read-from ----
	type acc struct {
		i, k int
		e    *SEvent
	}
	writes := map[string][]acc{}
	for i, t := range c.tr {
		for k, e := range t.Events {
			switch e.Kind {
			case "wr", "awr", "mwr":
				writes[e.Obj] = append(writes[e.Obj], acc{i, k, e})
			}
		}
	}
	for i, t := range c.tr {
		lastOwn := map[string]int{}
		for k, e := range t.Events {
			switch e.Kind {
			case "wr", "awr", "mwr":
				lastOwn[e.Obj] = k
			case "rd", "ard", "mrd":
				ws := writes[e.Obj]
				if len(ws) == 0 || c.T[i][k] == nil {
					continue
				}
				{
					var kept []acc
					for _, w := range ws {
						if c.T[w.i][w.k] != nil {
							kept = append(kept, w)
						}
					}
					ws = kept
				}
				rdT := c.ts(i, k)
				if e.RF == "" {
					// own view: no other thread's write between own last write (or start) and the read
					own, hasOwn := lastOwn[e.Obj]
					for _, w := range ws {
						if w.i == i {
							continue
						}
						wT := c.ts(w.i, w.k)
						ok := c.lt(rdT, wT)
						if hasOwn {
							ok = tc.Or(ok, c.lt(wT, c.ts(i, own)))
						}
						// a write that is not executed does not matter
						c.base = append(c.base, tc.Implies(tc.And(c.exec(i, k), c.exec(w.i, w.k)), ok))
					}
				} else {
					th, val := parseTraceRef(e.RF)
					// some matching write of thread th precedes, nothing in between
					any := tc.False
					for _, w := range ws {
						if c.names[w.i] != th || w.e.ValKey != val {
							continue
						}
						wT := c.ts(w.i, w.k)
						cond := tc.And(c.exec(w.i, w.k), c.lt(wT, rdT))
						for _, w2 := range ws {
							if w2.i == w.i && w2.k == w.k {
								continue
							}
							w2T := c.ts(w2.i, w2.k)
							between := tc.And(c.exec(w2.i, w2.k), tc.And(c.lt(wT, w2T), c.lt(w2T, rdT)))
							cond = tc.And(cond, tc.Not(between))
						}
						any = tc.Or(any, cond)
					}
					c.base = append(c.base, tc.Implies(c.exec(i, k), any))
				}
			}
		}
	}
	// ---- atomic counters ----
	rmws := map[string][]acc{}
	for i, t := range c.tr {
		for k, e := range t.Events {
			if e.Kind == "rmw" {
				rmws[e.Obj] = append(rmws[e.Obj], acc{i, k, e})
			}
		}
	}
	for i, t := range c.tr {
		for k, e := range t.Events {
			if e.X == nil {
				continue
			}
			x := c.copyTerm(t.tc, e.X, map[*Term]*Term{})
			sum := tc.BV(x.W, 0)
			for _, w := range rmws[e.Obj] {
				if w.i == i {
					continue
				}
				before := tc.And(c.exec(w.i, w.k), c.lt(c.ts(w.i, w.k), c.ts(i, k)))
				sum = tc.Bin(OpAdd, sum, tc.Ite(before, tc.BV(x.W, uint64(w.e.Delta)), tc.BV(x.W, 0)))
				// atomic operations on one cell are totally ordered
				c.base = append(c.base, tc.Not(tc.Eq(c.ts(w.i, w.k), c.ts(i, k))))
			}
			c.base = append(c.base, tc.Eq(x, sum))
		}
	}
	// ---- channels: a waiting receive follows a close ----
	closes := map[string][]acc{}
	for i, t := range c.tr {
		for k, e := range t.Events {
			if e.Kind == "chan-close" {
				closes[e.Obj] = append(closes[e.Obj], acc{i, k, e})
			}
		}
	}
	for i, t := range c.tr {
		for k, e := range t.Events {
			if e.Kind == "chan-recv" && e.Mode == "wait" {
				any := tc.False
				for _, cl := range closes[e.Obj] {
					any = tc.Or(any, tc.And(c.exec(cl.i, cl.k), c.lt(c.ts(cl.i, cl.k), c.ts(i, k))))
				}
				// executed means it returned: a close preceded
				c.base = append(c.base, tc.Implies(tc.And(c.exec(i, k), c.execNext(i, k)), any))
			}
		}
	}
	// ---- condition variables: a Wait returns after a Broadcast that follows its registration ----
	for i, t := range c.tr {
		for k, e := range t.Events {
			if e.Kind != "cond-wait" {
				continue
			}
			reg := c.condReg(i, k)
			any := tc.False
			for j, t2 := range c.tr {
				if j == i {
					continue
				}
				for l, e2 := range t2.Events {
					if e2.Kind == "cond-bcast" && e2.Obj == e.Obj {
						w := tc.And(c.exec(j, l), c.lt(c.ts(j, l), c.ts(i, k)))
						if reg >= 0 {
							w = tc.And(w, c.lt(c.ts(i, reg), c.ts(j, l)))
						}
						any = tc.Or(any, w)
					}
				}
			}
			c.base = append(c.base, tc.Implies(tc.And(c.exec(i, k), c.execNext(i, k)), any))
		}
	}
	// ---- WaitGroups: Wait returns when the counter is zero ----
	for i, t := range c.tr {
		for k, e := range t.Events {
			if e.Kind != "wg-wait" {
				continue
			}
			sum := tc.BV(tsW, 0)
			for j, t2 := range c.tr {
				for l, e2 := range t2.Events {
					if e2.Kind == "wg-add" && e2.Obj == e.Obj {
						before := tc.And(c.exec(j, l), c.lt(c.ts(j, l), c.ts(i, k)))
						sum = tc.Bin(OpAdd, sum, tc.Ite(before, tc.BV(tsW, uint64(e2.N)), tc.BV(tsW, 0)))
					}
				}
			}
			c.base = append(c.base, tc.Implies(tc.And(c.exec(i, k), c.execNext(i, k)), tc.Eq(sum, tc.BV(tsW, 0))))
		}
	}
}

// condReg: index of the registration event of the cond-wait at (i,k), -1 if none.
func (c *bCombo) condReg(i, k int) int {
	obj := c.tr[i].Events[k].Obj
	for r := k - 1; r >= 0; r-- {
		if e := c.tr[i].Events[r]; e.Kind == "cond-reg" && e.Obj == obj {
			return r
		}
	}
	return -1
}

// execNext: the event after (i,k) is executed, i.e. (i,k) has completed.
// Without cuts every event completes.
func (c *bCombo) execNext(i, k int) *Term {
	if c.cut == nil {
		return c.tc.True
	}
	return c.tc.Cmp(OpUlt, c.tc.BV(tsW, uint64(k+1)), c.tc.Bin(OpAdd, c.cut[i], c.tc.BV(tsW, 1)))
}

func (c *bCombo) copyTerm(from *TermCtx, t *Term, memo map[*Term]*Term) *Term {
	if r, ok := memo[t]; ok {
		return r
	}
	var r *Term
	switch t.Op {
	case OpConst:
		if t.W == 0 {
			r = c.tc.Bool(t.K == 1)
		} else {
			r = c.tc.BV(t.W, t.K)
		}
	case OpVar:
		r = c.tc.Var(t.Name, t.W)
	default:
		args := make([]*Term, len(t.A))
		for i, a := range t.A {
			args[i] = c.copyTerm(from, a, memo)
		}
		r = c.tc.mk(&Term{Op: t.Op, W: t.W, A: args, K: t.K})
	}
	memo[t] = r
	return r
}

func (c *bCombo) sections() []bSection {
	var out []bSection
	for i, t := range c.tr {
		open := map[string][]int{}
		for k, e := range t.Events {
			switch e.Kind {
			case "acq":
				if e.Self {
					continue
				}
				open[e.Obj+"|"+e.Mode] = append(open[e.Obj+"|"+e.Mode], k)
			case "rel":
				key := e.Obj + "|" + e.Mode
				if st := open[key]; len(st) > 0 {
					a := st[len(st)-1]
					open[key] = st[:len(st)-1]
					out = append(out, bSection{thread: i, acq: a, rel: k, mode: e.Mode, obj: e.Obj})
				}
			}
		}
		for key, st := range open {
			p := strings.LastIndex(key, "|")
			for _, a := range st {
				out = append(out, bSection{thread: i, acq: a, rel: -1, mode: key[p+1:], obj: key[:p]})
			}
		}
	}
	sort.Slice(out, func(a, b int) bool {
		if out[a].thread != out[b].thread {
			return out[a].thread < out[b].thread
		}
		return out[a].acq < out[b].acq
	})
	return out
}

func (c *bCombo) intervals() []bInterval {
	var out []bInterval
	for i, t := range c.tr {
		var stack []int
		for k, e := range t.Events {
			if e.Kind != "user" {
				continue
			}
			switch e.Obj {
			case "be-enter":
				stack = append(stack, k)
			case "be-exit":
				if len(stack) > 0 {
					a := stack[len(stack)-1]
					stack = stack[:len(stack)-1]
					out = append(out, c.mkInterval(i, a, k))
				}
			}
		}
		for _, a := range stack {
			out = append(out, c.mkInterval(i, a, -1))
		}
	}
	return out
}

func (c *bCombo) mkInterval(i, a, b int) bInterval {
	e := c.tr[i].Events[a]
	g := func(n int) string {
		if n < len(e.Args) {
			return e.Args[n]
		}
		return ""
	}
	return bInterval{thread: i, enter: a, exit: b, op: g(0), class: g(1), path: g(2), entry: g(3), file: g(4), req: g(5)}
}

// conflict: the File concurrency contract (DESIGN.md Appendix B).
func conflict(x, y bInterval) bool {
	if x.class == "none" || y.class == "none" || x.class == "" || y.class == "" {
		return false
	}
	if x.class == "global" || y.class == "global" {
		return true
	}
	if x.path == y.path && (x.class == "write" || y.class == "write") {
		return true
	}
	// UnlinkAt(name) also conflicts with calls on the removed entry
	if x.op == "UnlinkAt" && x.entry != "" && x.entry == y.path {
		return true
	}
	if y.op == "UnlinkAt" && y.entry != "" && y.entry == x.path {
		return true
	}
	return false
}

func (c *bCombo) check(s *Solver, extra ...*Term) Result {
	s.Push()
	for _, b := range c.base {
		s.Assert(b)
	}
	for _, e := range extra {
		s.Assert(e)
	}
	r := s.Check()
	s.Pop()
	return r
}

// order returns a witness interleaving (after a Sat check kept open by caller).
// gateAtomic: between passing one of its gates (user events) and reaching its
// next one a thread is not interrupted by events of other threads. A witness
// satisfying this can be enforced natively by holding threads at their gates.
func (c *bCombo) gateAtomic() []*Term {
	tc := c.tc
	var out []*Term
	for i, t := range c.tr {
		// blocks: [gate k, last kept event before the next gate]
		type blk struct{ from, to int }
		var blocks []blk
		cur := -1
		last := -1
		for k, e := range t.Events {
			if c.T[i][k] == nil {
				continue
			}
			if e.Kind == "user" {
				if cur >= 0 && last > cur {
					blocks = append(blocks, blk{cur, last})
				}
				cur = k
			}
			last = k
		}
		if cur >= 0 && last > cur {
			blocks = append(blocks, blk{cur, last})
		}
		for _, b := range blocks {
			for j := range c.tr {
				if j == i {
					continue
				}
				for l := range c.tr[j].Events {
					if c.T[j][l] == nil {
						continue
					}
					te := c.ts(j, l)
					inside := tc.And(c.lt(c.ts(i, b.from), te), c.lt(te, c.ts(i, b.to)))
					out = append(out, tc.Implies(tc.And(c.exec(j, l), c.exec(i, b.to)), tc.Not(inside)))
				}
			}
		}
	}
	return out
}

func (c *bCombo) witness(s *Solver, extra ...*Term) []string {
	// prefer a witness that switches threads only at gates (replayable by gating)
	if w := c.witness1(s, append(append([]*Term{}, extra...), c.gateAtomic()...)...); w != nil {
		return w
	}
	return c.witness1(s, extra...)
}

func (c *bCombo) witness1(s *Solver, extra ...*Term) []string {
	s.Push()
	defer s.Pop()
	for _, b := range c.base {
		s.Assert(b)
	}
	for _, e := range extra {
		s.Assert(e)
	}
	if s.Check() != Sat {
		return nil
	}
	var vars []*Term
	for i := range c.T {
		for _, t := range c.T[i] {
			if t != nil {
				vars = append(vars, t)
			}
		}
	}
	if c.cut != nil {
		vars = append(vars, c.cut...)
	}
	m, err := s.Model(vars)
	if err != nil {
		return nil
	}
	type ev struct {
		t    uint64
		i, k int
	}
	var evs []ev
	for i := range c.T {
		lim := len(c.T[i])
		if c.cut != nil {
			lim = int(m[c.cut[i].Name])
		}
		for k := 0; k < lim && k < len(c.T[i]); k++ {
			if c.T[i][k] == nil {
				continue
			}
			e := c.tr[i].Events[k]
			switch e.Kind {
			case "rd", "wr", "mrd", "mwr", "ard", "mkeys":
				if e.RF == "" {
					continue
				}
			}
			evs = append(evs, ev{m[c.T[i][k].Name], i, k})
		}
	}
	sort.Slice(evs, func(a, b int) bool {
		if evs[a].t != evs[b].t {
			return evs[a].t < evs[b].t
		}
		return evs[a].i < evs[b].i
	})
	var out []string
	c.lastSched = nil
	for _, e := range evs {
		out = append(out, fmt.Sprintf("%s: %s", c.names[e.i], c.tr[e.i].Events[e.k]))
		if c.tr[e.i].Events[e.k].Kind == "user" {
			n := 0
			for k := 0; k < e.k; k++ {
				if c.tr[e.i].Events[k].Kind == "user" {
					n++
				}
			}
			c.lastSched = append(c.lastSched, SchedStep{Thread: c.names[e.i], N: n, Text: c.tr[e.i].Events[e.k].String()})
		}
	}
	if c.cut != nil {
		for i := range c.cut {
			k := int(m[c.cut[i].Name])
			if k < len(c.tr[i].Events) {
				out = append(out, fmt.Sprintf("%s BLOCKED AT: %s", c.names[i], c.tr[i].Events[k]))
			} else if c.tr[i].Status != "done" {
				out = append(out, fmt.Sprintf("%s ENDED: %s %s", c.names[i], c.tr[i].Status, c.tr[i].Msg))
			}
		}
	}
	if len(out) > 120 {
		out = out[len(out)-120:]
	}
	return out
}

func phaseB(l *Loaded, res *HarnessResult, names []string, traces [][]*ThreadTrace, params map[string]int, timeoutMs int, verbose bool) {
	if len(traces) == 0 || len(names) == 0 {
		res.Reached["scenario-skipped"]++
		return
	}
	for i, tt := range traces {
		if len(tt) == 0 {
			res.EngineErrors["thread "+names[i]+" produced no trace"]++
			return
		}
	}
	tc := NewTermCtx()
	solver, err := NewSolver(tc, timeoutMs)
	if err != nil {
		res.EngineErrors["solver: "+err.Error()]++
		return
	}
	defer func() {
		res.Queries += solver.Queries
		res.NSat += solver.NSat
		res.NUnsat += solver.NUnsat
		res.NUnknown += solver.NUnknown
		res.SolveTime += solver.SolveTime
		solver.Close()
	}()
	phaseStart := time.Now()
	idx := make([]int, len(traces))
	for i := range idx {
		// debugging aid: start the enumeration at a given combination
		if v, ok := params[fmt.Sprintf("combo%d", i)]; ok && v < len(traces[i]) {
			idx[i] = v
		}
	}
	ncombo := 0
	nsolved := 0
	// two passes over the combinations: first those in which some thread ends
	// blocked (dead-lock candidates), then the complete ones; each pass has the
	// combination budget to itself
	pass := 1
	passStart := 0 // ncombo when the current pass began
	passOf := func() int {
		for i := range traces {
			if traces[i][idx[i]].Status != "done" {
				return 1
			}
		}
		return 2
	}
	var curCombo *bCombo
	addViol := func(label, msg string, trace []string) {
		res.Asserts++
		v := Violation{Harness: res.Harness, Label: label, Kind: "schedule", Msg: msg, Params: params, Trace: trace}
		if curCombo != nil {
			v.Sched = curCombo.lastSched
			v.SchedHang = strings.HasPrefix(label, "deadlock")
			v.SchedFree = strings.HasPrefix(label, "data-race")
			if v.SchedFree {
				v.Sched = nil
			}
		}
		if res.ViolCount == nil {
			res.ViolCount = map[string]int{}
		}
		sig := violSig(&v)
		res.ViolCount[sig]++
		res.NViolations++
		if res.ViolCount[sig] <= 3 {
			res.Violations = append(res.Violations, v)
		}
	}
	discharged := func(key string) {
		res.Asserts++
		res.Discharged++
		res.Distinct[key] = true
	}
	for {
		// ---- one combination ----
		if passOf() != pass {
			if !nextCombo(idx, traces) {
				if pass == 2 {
					break
				}
				pass, nsolved, passStart = 2, 0, ncombo
			}
			continue
		}
		c := &bCombo{tc: tc, names: names}
		curCombo = c
		for i := range traces {
			c.tr = append(c.tr, traces[i][idx[i]])
		}
		ncombo++
		comboKey := fmt.Sprint(idx)
		if os.Getenv("VERIF_SCHED_DEBUG") != "" && ncombo%20 == 1 {
			fmt.Printf("  [phaseB] combo %d %v queries=%d solve=%.1fs\n", ncombo, idx, solver.Queries, solver.SolveTime.Seconds())
		}
		allDone := true
		for _, t := range c.tr {
			if t.Status != "done" {
				allDone = false
			}
			switch t.Status {
			case "foreign":
				// only a problem if the combination is consistent up to that point; checked below
			case "blocked", "panic", "unwind":
			}
		}
		// syntactic pre-check: every read-from must have a matching write in the chosen traces
		rfOK := c.rfMatch()
		if !rfOK {
			res.Reached["combination-rf-mismatch"]++
		} else {
			nsolved++
		}
		if rfOK {
			// consistency of the complete combination (all events executed)
			c.build(false)
			full := Unsat
			if allDone {
				full = c.check(solver)
				if full == Unknown {
					res.Unknown++
				}
			}
			if full == Sat {
				res.Reached["combination-consistent"]++
				ivs := c.intervals()
				// (2) overlap queries
				for a := 0; a < len(ivs) && params["no_overlap"] != 1; a++ {
					for b := a + 1; b < len(ivs); b++ {
						x, y := ivs[a], ivs[b]
						if x.thread == y.thread || x.exit < 0 || y.exit < 0 {
							continue
						}
						ov := []*Term{c.lt(c.ts(x.thread, x.enter), c.ts(y.thread, y.exit)), c.lt(c.ts(y.thread, y.enter), c.ts(x.thread, x.exit))}
						r := c.check(solver, ov...)
						key := fmt.Sprintf("overlap/%s/%s|%s/%s|%s", comboKey, x.op, x.path, y.op, y.path)
						if conflict(x, y) {
							switch r {
							case Sat:
								addViol(fmt.Sprintf("contract-overlap:%s(%s)x%s(%s)", x.op, x.class, y.op, y.class),
									fmt.Sprintf("%s on %s overlaps %s on %s", x.op, x.path, y.op, y.path), c.witness(solver, ov...))
							case Unsat:
								discharged(key)
								res.Reached["conflicting-pair-serialised"]++
							default:
								res.Unknown++
							}
						} else if x.class != "" && y.class != "" {
							if r == Sat {
								res.Reached["independent-pair-can-overlap"]++
							} else if r == Unsat {
								res.Reached["independent-pair-serialised"]++
							}
						}
					}
				}
				// Open at most once per File
				opens := map[string]int{}
				for _, iv := range ivs {
					if iv.op == "Open" {
						opens[iv.file]++
					}
				}
				for f, n := range opens {
					if n > 1 {
						addViol("open-twice", "File "+f+" is opened by "+strconv.Itoa(n)+" requests in one consistent interleaving", c.witness(solver))
					} else {
						discharged("open-once/" + comboKey + f)
					}
				}
				// File lifecycle under concurrency (C05 clauses that need a schedule):
				// Close at most once per File, no call on a File after its Close
				// (Files of the common start state only: they have distinct ids)
				if params["no_lifecycle"] != 1 {
					closes := map[string][]bInterval{}
					for _, iv := range ivs {
						if iv.op == "Close" && iv.file != "" && iv.file != "1000" {
							closes[iv.file] = append(closes[iv.file], iv)
						}
					}
					for f, cl := range closes {
						if len(cl) > 1 {
							addViol("close-twice", "File "+f+" ("+cl[0].path+") is closed "+strconv.Itoa(len(cl))+" times in one consistent interleaving", c.witness(solver))
						} else {
							discharged("close-once/" + comboKey + "/" + f)
						}
						for _, iv := range ivs {
							if iv.file != f || iv.op == "Close" || cl[0].exit < 0 {
								continue
							}
							after := []*Term{c.lt(c.ts(cl[0].thread, cl[0].exit), c.ts(iv.thread, iv.enter))}
							if iv.thread == cl[0].thread {
								if iv.enter > cl[0].exit {
									addViol("use-after-close", iv.op+" on File "+f+" after its Close (same request)", c.witness(solver))
								}
								continue
							}
							switch c.check(solver, after...) {
							case Sat:
								addViol("use-after-close", iv.op+" on File "+f+" ("+iv.path+") can start after the File was closed", c.witness(solver, after...))
							case Unsat:
								discharged("no-use-after-close/" + comboKey + "/" + f + "/" + iv.op)
							default:
								res.Unknown++
							}
						}
					}
				}
				// isolation (C16): threads declared disjoint observe what they observe alone
				if res.Reached["disjoint-pair"] > 0 && res.soloReplies != nil {
					for i, t := range c.tr {
						if i >= len(res.soloReplies) {
							continue
						}
						got := replyOf(t)
						if res.soloReplies[i][got] {
							discharged("isolation/" + comboKey + "/" + names[i])
							res.Reached["isolated-result-as-alone"]++
						} else {
							var alone []string
							for k := range res.soloReplies[i] {
								alone = append(alone, k)
							}
							sort.Strings(alone)
							addViol("isolation-result-differs", fmt.Sprintf("thread %s observes %s, running alone %s", names[i], got, strings.Join(alone, " or ")), c.witness(solver))
						}
					}
				}
				// (3) marks: flush ordering and frame contiguity
				c.checkMarks(solver, comboKey, addViol, discharged, res)
				// (4) data races
				if params["race"] == 1 {
					c.keepAll = true
					c.build(false)
					c.checkRaces(solver, comboKey, addViol, discharged, res)
					c.keepAll = false
				}
			}
			// (1) dead-lock query with cuts - only when the lock-order graph of this
			// combination has a cycle, a thread re-locks a mutex it holds, or threads
			// wait on channels / WaitGroups (otherwise no dead-lock is possible)
			if c.needsDeadlockQuery() {
				c.build(true)
				c.checkDeadlock(solver, comboKey, addViol, discharged, res)
			} else {
				discharged("deadlock-lockorder/" + comboKey)
				res.Reached["deadlock-free-by-lock-order"]++
			}
			// foreign reads: a combination that is consistent up to a foreign read cannot be decided
			for i, t := range c.tr {
				if t.Status == "foreign" {
					c.build(true)
					// all of thread i executed
					ext := []*Term{tc.Eq(c.cut[i], tc.BV(tsW, uint64(c.n[i])))}
					if c.check(solver, ext...) == Sat {
						if res.Undecided == nil {
							res.Undecided = map[string]int{}
						}
						res.Undecided["independence limit: "+t.Msg]++
					}
				}
			}
		} // rfOK
		// next combination
		more := nextCombo(idx, traces)
		if !more {
			if pass == 2 {
				break
			}
			pass, nsolved, passStart = 2, 0, ncombo
			continue
		}
		maxCombos := 600
		if v, ok := params["max_combos"]; ok {
			maxCombos = v
		}
		maxSec := 900
		if v, ok := params["max_seconds"]; ok {
			maxSec = v
		}
		if time.Since(phaseStart) > time.Duration(maxSec)*time.Second {
			total := 1
			for _, tt := range traces {
				total *= len(tt)
			}
			if res.Undecided == nil {
				res.Undecided = map[string]int{}
			}
			res.Undecided[fmt.Sprintf("time budget (%d s per scenario): %d of %d trace combinations examined", maxSec, ncombo, total)]++
			break
		}
		if nsolved >= maxCombos || ncombo-passStart > 20*maxCombos {
			total := 1
			for _, tt := range traces {
				total *= len(tt)
			}
			if res.Undecided == nil {
				res.Undecided = map[string]int{}
			}
			res.Undecided[fmt.Sprintf("combination budget (pass %d): %d of %d trace combinations examined (%d decided by the solver in this pass)", pass, ncombo, total, nsolved)]++
			if pass == 2 {
				break
			}
			pass, nsolved, passStart = 2, 0, ncombo
			for i := range idx {
				idx[i] = 0
			}
		}
	}
	res.Reached["combinations"] = ncombo
	if len(res.Samples) < 6 {
		for i, tt := range traces {
			if len(tt) > 0 {
				var evs []string
				for _, e := range tt[0].Events {
					if e.Kind == "acq" || e.Kind == "rel" || e.Kind == "user" || strings.HasPrefix(e.Kind, "chan") || e.Kind == "rmw" {
						evs = append(evs, e.String())
					}
				}
				if len(evs) > 40 {
					evs = evs[:40]
				}
				res.Samples = append(res.Samples, map[string]interface{}{"thread": names[i], "traces": len(tt), "first_trace_status": tt[0].Status, "first_trace_sync_events": evs})
			}
		}
	}
}

// nextCombo advances idx to the next combination (last thread fastest); false
// once it wrapped around to the first.
func nextCombo(idx []int, traces [][]*ThreadTrace) bool {
	k := len(idx) - 1
	for k >= 0 {
		idx[k]++
		if idx[k] < len(traces[k]) {
			return true
		}
		idx[k] = 0
		k--
	}
	return false
}

// checkDeadlock: is there a consistent partial execution in which every
// unfinished thread is blocked?
func (c *bCombo) checkDeadlock(s *Solver, comboKey string, addViol func(string, string, []string), discharged func(string), res *HarnessResult) {
	tc := c.tc
	secs := c.sections()
	allBlockedOrDone := tc.True
	someBlocked := tc.False
	for i, t := range c.tr {
		n := len(t.Events)
		finished := tc.And(tc.Eq(c.cut[i], tc.BV(tsW, uint64(n))), tc.Bool(t.Status == "done"))
		blockedAny := tc.False
		for k, e := range t.Events {
			atK := tc.Eq(c.cut[i], tc.BV(tsW, uint64(k)))
			var blocked *Term
			switch e.Kind {
			case "acq":
				if e.Self {
					blocked = tc.True
					break
				}
				blocked = tc.False
				for _, sct := range secs {
					if sct.thread == i || sct.obj != e.Obj || (sct.mode == "R" && e.Mode == "R") {
						continue
					}
					held := c.exec(sct.thread, sct.acq)
					if sct.rel >= 0 {
						held = tc.And(held, tc.Not(c.exec(sct.thread, sct.rel)))
					}
					blocked = tc.Or(blocked, held)
				}
			case "chan-recv":
				if e.Mode != "wait" {
					continue
				}
				closed := tc.False
				for j, t2 := range c.tr {
					for l, e2 := range t2.Events {
						if e2.Kind == "chan-close" && e2.Obj == e.Obj {
							closed = tc.Or(closed, c.exec(j, l))
						}
					}
				}
				blocked = tc.Not(closed)
			case "cond-wait":
				reg := c.condReg(i, k)
				woken := tc.False
				for j, t2 := range c.tr {
					if j == i {
						continue
					}
					for l, e2 := range t2.Events {
						if e2.Kind == "cond-bcast" && e2.Obj == e.Obj {
							w := c.exec(j, l)
							if reg >= 0 {
								w = tc.And(w, c.lt(c.ts(i, reg), c.ts(j, l)))
							}
							woken = tc.Or(woken, w)
						}
					}
				}
				blocked = tc.Not(woken)
			case "wg-wait":
				sum := tc.BV(tsW, 0)
				for j, t2 := range c.tr {
					for l, e2 := range t2.Events {
						if e2.Kind == "wg-add" && e2.Obj == e.Obj {
							sum = tc.Bin(OpAdd, sum, tc.Ite(c.exec(j, l), tc.BV(tsW, uint64(e2.N)), tc.BV(tsW, 0)))
						}
					}
				}
				blocked = tc.Not(tc.Eq(sum, tc.BV(tsW, 0)))
			default:
				continue
			}
			blockedAny = tc.Or(blockedAny, tc.And(atK, blocked))
		}
		// a trace that ended in a self dead-lock has its self-acquire as last event:
		// being cut exactly there is covered above (Self => blocked)
		allBlockedOrDone = tc.And(allBlockedOrDone, tc.Or(finished, blockedAny))
		someBlocked = tc.Or(someBlocked, blockedAny)
	}
	q := []*Term{allBlockedOrDone, someBlocked}
	switch c.check(s, q...) {
	case Sat:
		w := c.witness(s, q...)
		cls := "deadlock"
		for _, line := range w {
			if strings.Contains(line, "[SELF]") {
				cls = "deadlock-self-relock"
			}
		}
		addViol(cls, "every unfinished thread is blocked", w)
	case Unsat:
		discharged("deadlock/" + comboKey)
		res.Reached["deadlock-free-combination"]++
	default:
		res.Unknown++
	}
}

// checkMarks: C14 flush ordering, C06 frame contiguity and reply counting,
// from user events:
//
//	tx-begin(tag,type) / tx-end(tag,type)   from the recording writer
//	flushes(flushTag, oldTag)               declared by the harness
//	be-enter/be-exit(..., req=tag)
func (c *bCombo) checkMarks(s *Solver, comboKey string, addViol func(string, string, []string), discharged func(string), res *HarnessResult) {
	tc := c.tc
	type mark struct {
		i, k int
		args []string
	}
	var txb, txe, flushes []mark
	for i, t := range c.tr {
		for k, e := range t.Events {
			if e.Kind != "user" {
				continue
			}
			switch e.Obj {
			case "tx-begin":
				txb = append(txb, mark{i, k, e.Args})
			case "tx-end":
				txe = append(txe, mark{i, k, e.Args})
			case "flushes":
				flushes = append(flushes, mark{i, k, e.Args})
			}
		}
	}
	ivs := c.intervals()
	// C14
	for _, f := range flushes {
		if len(f.args) < 2 {
			continue
		}
		ftag, old := f.args[0], f.args[1]
		// Bound of this query: the flushed request registered its tag before the
		// flush looked it up (the window between recvMu.Unlock and StartTag in
		// handleRequest is outside the decided bound, see DESIGN.md section 7).
		var regOrder []*Term
		for oi, ot := range c.tr {
			if c.names[oi] != old {
				continue
			}
			firstW := map[string]int{}
			for k, e := range ot.Events {
				if e.Kind == "mwr" {
					if _, ok := firstW[e.Obj]; !ok {
						firstW[e.Obj] = k
					}
				}
			}
			for k, e := range c.tr[f.i].Events {
				if e.Kind == "mrd" && k > f.k {
					if w, ok := firstW[e.Obj]; ok && c.T[oi][w] != nil && c.T[f.i][k] != nil {
						regOrder = append(regOrder, c.lt(c.ts(oi, w), c.ts(f.i, k)))
					}
				}
			}
		}
		for _, b := range txb {
			if len(b.args) < 2 || b.args[0] != ftag || b.args[1] != "109" {
				continue
			}
			for _, iv := range ivs {
				if iv.req != old || iv.exit < 0 {
					continue
				}
				q := []*Term{c.lt(c.ts(iv.thread, iv.enter), c.ts(b.i, b.k)), c.lt(c.ts(b.i, b.k), c.ts(iv.thread, iv.exit))}
				q = append(q, regOrder...)
				switch c.check(s, q...) {
				case Sat:
					addViol("rflush-while-flushed-request-in-backend", fmt.Sprintf("Rflush[%s] written while %s of request %s is still running", ftag, iv.op, old), c.witness(s, q...))
				case Unsat:
					discharged(fmt.Sprintf("flush/%s/%s/%d", comboKey, ftag, iv.enter))
					res.Reached["flush-ordered"]++
				default:
					res.Unknown++
				}
			}
			// a backend call of the flushed request starting after the Rflush although one began before
			for _, iv1 := range ivs {
				for _, iv2 := range ivs {
					if iv1.req != old || iv2.req != old || iv1.enter >= iv2.enter || iv1.thread != iv2.thread {
						continue
					}
					q := []*Term{c.lt(c.ts(iv1.thread, iv1.enter), c.ts(b.i, b.k)), c.lt(c.ts(b.i, b.k), c.ts(iv2.thread, iv2.enter))}
					q = append(q, regOrder...)
					if c.check(s, q...) == Sat {
						addViol("backend-call-starts-after-rflush", fmt.Sprintf("%s of request %s starts after Rflush[%s]", iv2.op, old, ftag), c.witness(s, q...))
					} else {
						discharged(fmt.Sprintf("flush2/%s/%s/%d/%d", comboKey, ftag, iv1.enter, iv2.enter))
					}
				}
			}
		}
	}
	// C06 contiguity: frames of different threads do not interleave
	type frame struct{ i, b, e int }
	var frames []frame
	for _, b := range txb {
		for _, e := range txe {
			if e.i == b.i && e.k > b.k && len(e.args) >= 2 && len(b.args) >= 2 && e.args[0] == b.args[0] && e.args[1] == b.args[1] {
				frames = append(frames, frame{b.i, b.k, e.k})
				break
			}
		}
	}
	for a := 0; a < len(frames); a++ {
		for b := a + 1; b < len(frames); b++ {
			f1, f2 := frames[a], frames[b]
			if f1.i == f2.i {
				continue
			}
			q := []*Term{c.lt(c.ts(f1.i, f1.b), c.ts(f2.i, f2.e)), c.lt(c.ts(f2.i, f2.b), c.ts(f1.i, f1.e))}
			switch c.check(s, q...) {
			case Sat:
				addViol("reply-frames-interleave", "the writes of two reply frames interleave", c.witness(s, q...))
			case Unsat:
				discharged(fmt.Sprintf("contig/%s/%d/%d", comboKey, a, b))
				res.Reached["frames-contiguous"]++
			default:
				res.Unknown++
			}
		}
	}
	_ = tc
}

// checkRaces: conflicting non-atomic accesses of different threads that can be
// adjacent in some consistent total order.
func (c *bCombo) checkRaces(s *Solver, comboKey string, addViol func(string, string, []string), discharged func(string), res *HarnessResult) {
	tc := c.tc
	type acc struct {
		i, k  int
		write bool
		obj   string
		held  map[string]string
	}
	var accs []acc
	for i, t := range c.tr {
		held := map[string]string{}
		for k, e := range t.Events {
			switch e.Kind {
			case "acq":
				if !e.Self {
					held[e.Obj] = e.Mode
				}
			case "rel":
				delete(held, e.Obj)
			case "rd", "wr", "mrd", "mwr", "mkeys":
				h := map[string]string{}
				for m, v := range held {
					h[m] = v
				}
				obj := e.Obj
				accs = append(accs, acc{i, k, e.Kind == "wr" || e.Kind == "mwr", obj, h})
			}
		}
	}
	mapOf := func(o string) string {
		if p := strings.Index(o, "["); p > 0 {
			return o[:p]
		}
		return o
	}
	checked := map[string]bool{}
	for a := 0; a < len(accs); a++ {
		for b := a + 1; b < len(accs); b++ {
			x, y := accs[a], accs[b]
			if x.i == y.i || (!x.write && !y.write) {
				continue
			}
			same := x.obj == y.obj
			// a range/len over a map conflicts with any write to that map
			if !same && (strings.HasPrefix(c.tr[x.i].Events[x.k].Kind, "mk") || strings.HasPrefix(c.tr[y.i].Events[y.k].Kind, "mk")) {
				same = mapOf(x.obj) == mapOf(y.obj)
			}
			// Go maps: concurrent write to ANY key races with access to any key
			if !same && (x.write || y.write) && mapOf(x.obj) == mapOf(y.obj) && strings.Contains(x.obj, "[") && strings.Contains(y.obj, "[") {
				same = true
			}
			if !same {
				continue
			}
			// common lock held by both (not both in read mode)?
			protected := false
			for m, mx := range x.held {
				if my, ok := y.held[m]; ok && !(mx == "R" && my == "R") {
					protected = true
				}
			}
			if protected {
				continue
			}
			key := fmt.Sprintf("%s|%d|%d", x.obj+"~"+y.obj, x.i, y.i)
			if checked[key] {
				continue
			}
			checked[key] = true
			// adjacency: no event of any thread strictly between them, for either order
			adj := func(p, q acc) []*Term {
				tp, tq := c.ts(p.i, p.k), c.ts(q.i, q.k)
				cs := []*Term{c.lt(tp, tq)}
				for i := range c.T {
					for k := range c.T[i] {
						if (i == p.i && k == p.k) || (i == q.i && k == q.k) || c.T[i][k] == nil {
							continue
						}
						te := c.ts(i, k)
						cs = append(cs, tc.Not(tc.And(c.lt(tp, te), c.lt(te, tq))))
					}
				}
				// all timestamps distinct from tp/tq
				return cs
			}
			r := c.check(s, adj(x, y)...)
			if r != Sat {
				r = c.check(s, adj(y, x)...)
			}
			switch r {
			case Sat:
				addViol("data-race:"+mapOf(x.obj), fmt.Sprintf("unsynchronised conflicting accesses to %s by %s and %s", x.obj, c.names[x.i], c.names[y.i]),
					[]string{c.names[x.i] + ": " + c.tr[x.i].Events[x.k].String() + " at " + c.tr[x.i].Events[x.k].Pos, c.names[y.i] + ": " + c.tr[y.i].Events[y.k].String() + " at " + c.tr[y.i].Events[y.k].Pos})
			case Unsat:
				discharged("race/" + comboKey + key)
			default:
				res.Unknown++
			}
		}
	}
}

// needsDeadlockQuery: a dead-lock needs a thread that re-acquires its own
// lock, a wait on a channel or WaitGroup, an unfinished trace, or a cycle in
// the lock-order graph (held -> requested, incompatible modes) across threads.
func (c *bCombo) needsDeadlockQuery() bool {
	type edge struct{ from, to string }
	edges := make([]map[edge]bool, len(c.tr))
	for i, t := range c.tr {
		if t.Status != "done" {
			return true
		}
		edges[i] = map[edge]bool{}
		held := map[string]string{}
		for _, e := range t.Events {
			switch e.Kind {
			case "acq":
				if e.Self {
					return true
				}
				for h := range held {
					edges[i][edge{h, e.Obj}] = true
				}
				held[e.Obj] = e.Mode
			case "rel":
				delete(held, e.Obj)
			case "chan-recv":
				if e.Mode == "wait" {
					return true
				}
			case "wg-wait", "chan-send", "cond-wait":
				return true
			}
		}
	}
	// cycle across threads: search for a path of edges from different threads
	// that returns to its start (at most len(threads) edges)
	var dfs func(start, cur string, used []bool, depth int) bool
	dfs = func(start, cur string, used []bool, depth int) bool {
		for i := range edges {
			if used[i] {
				continue
			}
			for e := range edges[i] {
				if e.from != cur {
					continue
				}
				if e.to == start && depth >= 1 {
					return true
				}
				used[i] = true
				if dfs(start, e.to, used, depth+1) {
					return true
				}
				used[i] = false
			}
		}
		return false
	}
	for i := range edges {
		for e := range edges[i] {
			used := make([]bool, len(edges))
			used[i] = true
			if dfs(e.from, e.to, used, 1) {
				return true
			}
		}
	}
	return false
}

// rfMatch: every read that chose another thread's write finds such a write
// (same cell, same value) in that thread's chosen trace.
func (c *bCombo) rfMatch() bool {
	type key struct{ th, obj, val string }
	have := map[key]bool{}
	for i, t := range c.tr {
		for _, e := range t.Events {
			switch e.Kind {
			case "wr", "awr", "mwr":
				have[key{c.names[i], e.Obj, e.ValKey}] = true
			}
		}
	}
	for _, t := range c.tr {
		for _, e := range t.Events {
			if e.RF == "" {
				continue
			}
			th, val := parseTraceRef(e.RF)
			if !have[key{th, e.Obj, val}] {
				return false
			}
		}
	}
	return true
}
