package sym

import (
	"fmt"
	"os"
	"path/filepath"
	"strings"
	"time"
)

// selftest validates the translator: every VerifH_Self_* harness (concrete
// computations over the repo's own test tables that report values through
// verifOut) is run in the interpreter and natively; all observations must agree.
func selftest() int {
	vd := verifDir()
	repo := repoDir()
	// 1. solver sanity
	tc := NewTermCtx()
	s, err := NewSolver(tc, 10000)
	if err != nil {
		fmt.Println("SELFTEST FAIL: cannot start z3:", err)
		return 1
	}
	x := tc.Var("x", 32)
	s.Push()
	s.Assert(tc.Cmp(OpUlt, x, tc.BV(32, 5)))
	s.Assert(tc.Cmp(OpUlt, tc.BV(32, 7), x))
	r1 := s.Check()
	s.Pop()
	s.Push()
	s.Assert(tc.Eq(tc.Bin(OpAdd, x, tc.BV(32, 1)), tc.BV(32, 0)))
	r2 := s.Check()
	m, _ := s.Model([]*Term{x})
	s.Pop()
	s.Close()
	if r1 != Unsat || r2 != Sat || m["x"] != 0xffffffff {
		fmt.Println("SELFTEST FAIL: solver sanity", r1, r2, m)
		return 1
	}
	// 2. interpreter vs native on Self harnesses
	pkgs := []string{"p9"}
	l, err := Load(repo, filepath.Join(vd, "harness"), pkgs)
	if err != nil {
		fmt.Println("SELFTEST FAIL: load:", err)
		return 1
	}
	fails := 0
	n := 0
	for _, pkg := range pkgs {
		var nt *NativeTest
		for _, name := range l.Harnesses(ModulePath + "/" + pkg) {
			if !strings.HasPrefix(name, "VerifH_Self_") {
				continue
			}
			if nt == nil {
				nt, err = BuildNativeTest(repo, filepath.Join(vd, "harness"), pkg)
				if err != nil {
					fmt.Println("SELFTEST FAIL: native build:", err)
					return 1
				}
				defer nt.Close()
			}
			n++
			ex := &Explorer{L: l, Fn: l.Func(ModulePath+"/"+pkg, name), Params: map[string]int{}, Workers: 1, TimeoutMs: 10000}
			res := ex.Run()
			if res.Paths != 1 || res.Statuses["ok"] != 1 || len(res.Outs) != 1 {
				fmt.Printf("SELFTEST FAIL: %s: paths=%d statuses=%v engine=%v\n", name, res.Paths, res.Statuses, res.EngineErrors)
				fails++
				continue
			}
			tape := filepath.Join(nt.Tmp, name+".json")
			writeReplayFile(tape, "", pkg, &Violation{Harness: name, Params: map[string]int{}})
			_, out := nt.Run(tape, 30*time.Second)
			var nout []string
			for _, line := range strings.Split(out, "\n") {
				if strings.HasPrefix(line, "VERIF-OUT ") {
					nout = append(nout, strings.TrimPrefix(line, "VERIF-OUT "))
				}
			}
			iout := res.Outs[0]
			if len(nout) != len(iout) {
				fmt.Printf("SELFTEST FAIL: %s: %d native vs %d interpreted observations\n", name, len(nout), len(iout))
				fails++
				continue
			}
			bad := 0
			for i := range nout {
				if nout[i] != iout[i] {
					if bad < 5 {
						fmt.Printf("SELFTEST MISMATCH %s #%d:\n   native: %s\n   interp: %s\n", name, i, nout[i], iout[i])
					}
					bad++
				}
			}
			if bad > 0 {
				fails++
			} else {
				fmt.Printf("selftest %s: %d observations agree\n", name, len(nout))
			}
		}
	}
	// 3. random-concrete runs of real harnesses: interpreter vs native
	nrand, agree := 0, 0
	seed0 := int64(1)
	if s := os.Getenv("VERIF_SEED"); s != "" {
		fmt.Sscan(s, &seed0)
		seed0 = seed0*1000 + 1
	}
	type rh struct {
		pkg, fn string
		params  map[string]int
	}
	rhs := []rh{
		{"p9", "VerifH_C01_Encode", map[string]int{"L": 3, "N": 2, "P": 3}},
		{"p9", "VerifH_C01_Decode", map[string]int{"L": 3, "N": 2, "P": 3}},
		{"p9", "VerifH_C20_ModeP9OSP9", map[string]int{}},
		{"p9", "VerifH_C12_Server", map[string]int{"VL": 9, "VT": 4}},
		{"p9", "VerifH_C09_Names", map[string]int{"L": 3}},
	}
	rounds := 6
	if os.Getenv("VERIF_TIER") == "thorough" {
		rounds = 40
	}
	var nt *NativeTest
	for _, h := range rhs {
		f := l.Func(ModulePath+"/"+h.pkg, h.fn)
		if f == nil {
			fmt.Println("SELFTEST FAIL: missing harness", h.fn)
			return 1
		}
		if nt == nil {
			nt, err = BuildNativeTest(repo, filepath.Join(vd, "harness"), h.pkg)
			if err != nil {
				fmt.Println("SELFTEST FAIL: native build:", err)
				return 1
			}
			defer nt.Close()
		}
		for k := 0; k < rounds; k++ {
			ex := &Explorer{L: l, Fn: f, Params: h.params, Workers: 1, TimeoutMs: 10000, RandSeed: seed0 + int64(k)}
			res := ex.Run()
			nrand++
			tape := filepath.Join(nt.Tmp, fmt.Sprintf("%s_%d.json", h.fn, k))
			writeReplayFile(tape, "", h.pkg, &Violation{Harness: h.fn, Params: h.params, Tape: res.RandTape})
			nres, out := nt.Run(tape, 30*time.Second)
			var nout []string
			for _, line := range strings.Split(out, "\n") {
				if strings.HasPrefix(line, "VERIF-OUT ") {
					nout = append(nout, strings.TrimPrefix(line, "VERIF-OUT "))
				}
			}
			var iout []string
			if len(res.Outs) > 0 {
				iout = res.Outs[0]
			}
			ok := strings.HasPrefix(nres, res.RandOutcome) || (strings.HasPrefix(nres, "not-a-model") && res.RandOutcome == "not-a-model")
			if len(nout) != len(iout) {
				ok = false
			} else {
				for i := range nout {
					if nout[i] != iout[i] {
						ok = false
					}
				}
			}
			if !ok {
				fails++
				fmt.Printf("SELFTEST MISMATCH %s seed %d: interp=%q native=%q outs %d/%d\n", h.fn, seed0+int64(k), res.RandOutcome, nres, len(iout), len(nout))
				for i := 0; i < len(iout) && i < len(nout); i++ {
					if iout[i] != nout[i] {
						fmt.Printf("   interp: %s\n   native: %s\n", iout[i], nout[i])
						break
					}
				}
			} else {
				agree++
			}
		}
	}
	if fails > 0 {
		return 1
	}
	fmt.Printf("selftest ok (%d fixed translator-validation harnesses, %d/%d random-concrete runs agree with native execution)\n", n, agree, nrand)
	_ = os.Stdout
	return 0
}
