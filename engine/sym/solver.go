package sym

import (
	"bufio"
	"fmt"
	"io"
	"os/exec"
	"strconv"
	"strings"
	"time"
)

type Result int

const (
	Unsat Result = iota
	Sat
	Unknown
)

func (r Result) String() string { return [...]string{"unsat", "sat", "unknown"}[r] }

// Solver drives one long-lived `z3 -in` process.
type Solver struct {
	ctx     *TermCtx
	cmd     *exec.Cmd
	in      io.WriteCloser
	out     *bufio.Reader
	defined map[*Term]string
	buf     strings.Builder
	level   int
	Binary  string

	// stats
	Queries   int
	NSat      int
	NUnsat    int
	NUnknown  int
	Errors    []string
	SolveTime time.Duration
	TimeoutMs int
	Log       io.Writer // optional transcript

	// assertion stack mirror, for the stand-alone fallback
	asserted        [][]*Term
	IncrMs          int // timeout of the incremental attempt
	standaloneModel map[string]uint64
	Fallbacks       int
}

func NewSolver(ctx *TermCtx, timeoutMs int) (*Solver, error) {
	s := &Solver{ctx: ctx, defined: map[*Term]string{}, TimeoutMs: timeoutMs, Binary: "/usr/bin/z3"}
	if err := s.start(); err != nil {
		return nil, err
	}
	return s, nil
}

func (s *Solver) start() error {
	s.cmd = exec.Command(s.Binary, "-in", "-smt2")
	in, err := s.cmd.StdinPipe()
	if err != nil {
		return err
	}
	out, err := s.cmd.StdoutPipe()
	if err != nil {
		return err
	}
	s.cmd.Stderr = nil
	if err := s.cmd.Start(); err != nil {
		return err
	}
	s.in = in
	s.out = bufio.NewReaderSize(out, 1<<16)
	s.defined = map[*Term]string{}
	s.level = 0
	s.send("(set-option :global-declarations true)\n")
	s.send("(set-option :produce-models true)\n")
	s.IncrMs = 2500
	if s.TimeoutMs > 0 && s.TimeoutMs < s.IncrMs {
		s.IncrMs = s.TimeoutMs
	}
	s.send(fmt.Sprintf("(set-option :timeout %d)\n", s.IncrMs))
	s.asserted = [][]*Term{nil}
	return nil
}

func (s *Solver) Close() {
	if s.cmd != nil {
		s.in.Close()
		s.cmd.Process.Kill()
		s.cmd.Wait()
		s.cmd = nil
	}
}

// Restart kills the process and starts afresh (drops all definitions).
func (s *Solver) Restart() error {
	s.Close()
	return s.start()
}

func (s *Solver) send(txt string) {
	if s.Log != nil {
		io.WriteString(s.Log, txt)
	}
	s.buf.WriteString(txt)
}

func (s *Solver) flush() {
	if s.buf.Len() == 0 {
		return
	}
	io.WriteString(s.in, s.buf.String())
	s.buf.Reset()
}

// name returns the SMT name of t, emitting definitions as needed.
func (s *Solver) name(t *Term) string {
	if t.Op == OpConst {
		return constStr(t)
	}
	if n, ok := s.defined[t]; ok {
		return n
	}
	if t.Op == OpVar {
		n := quoteSym(t.Name)
		s.send(fmt.Sprintf("(declare-const %s %s)\n", n, sortOf(t.W)))
		s.defined[t] = n
		return n
	}
	// iterative post-order to avoid deep recursion
	type fr struct {
		t *Term
		i int
	}
	stack := []fr{{t, 0}}
	for len(stack) > 0 {
		top := &stack[len(stack)-1]
		if top.i < len(top.t.A) {
			a := top.t.A[top.i]
			top.i++
			if a.Op == OpConst {
				continue
			}
			if _, ok := s.defined[a]; ok {
				continue
			}
			if a.Op == OpVar {
				n := quoteSym(a.Name)
				s.send(fmt.Sprintf("(declare-const %s %s)\n", n, sortOf(a.W)))
				s.defined[a] = n
				continue
			}
			stack = append(stack, fr{a, 0})
			continue
		}
		x := top.t
		stack = stack[:len(stack)-1]
		if _, ok := s.defined[x]; ok {
			continue
		}
		n := "t" + strconv.Itoa(x.id)
		var sb strings.Builder
		x.write(&sb, func(a *Term) (string, bool) {
			if a.Op == OpConst {
				return constStr(a), true
			}
			nn, ok := s.defined[a]
			return nn, ok
		}, 0)
		s.send(fmt.Sprintf("(define-fun %s () %s %s)\n", n, sortOf(x.W), sb.String()))
		s.defined[x] = n
	}
	return s.defined[t]
}

func (s *Solver) Push() {
	s.send("(push 1)\n")
	s.level++
	s.asserted = append(s.asserted, nil)
}

func (s *Solver) Pop() {
	s.send("(pop 1)\n")
	s.level--
	s.asserted = s.asserted[:len(s.asserted)-1]
}

// PopTo pops to the given level.
func (s *Solver) PopTo(level int) {
	for s.level > level {
		s.Pop()
	}
}

func (s *Solver) Level() int { return s.level }

func (s *Solver) Assert(t *Term) {
	if t.W != 0 {
		panic("assert of non-bool")
	}
	if t.IsTrue() {
		return
	}
	n := s.name(t)
	s.send("(assert " + n + ")\n")
	s.asserted[len(s.asserted)-1] = append(s.asserted[len(s.asserted)-1], t)
}

func (s *Solver) readLine() (string, error) {
	line, err := s.out.ReadString('\n')
	return strings.TrimSpace(line), err
}

// Check runs check-sat.
func (s *Solver) Check() Result {
	s.standaloneModel = nil
	s.send("(check-sat)\n")
	s.flush()
	t0 := time.Now()
	defer func() { s.SolveTime += time.Since(t0) }()
	s.Queries++
	sawErr := false
	for {
		line, err := s.readLine()
		if err != nil {
			s.Errors = append(s.Errors, "solver died: "+err.Error())
			s.NUnknown++
			s.Restart()
			return Unknown
		}
		switch {
		case line == "sat":
			if sawErr {
				s.NUnknown++
				return Unknown
			}
			s.NSat++
			return Sat
		case line == "unsat":
			if sawErr {
				s.NUnknown++
				return Unknown
			}
			s.NUnsat++
			return Unsat
		case line == "unknown" || line == "timeout":
			// the incremental core gave up: retry stand-alone (full preprocessing)
			if r := s.checkStandalone(); r != Unknown {
				if r == Sat {
					s.NSat++
				} else {
					s.NUnsat++
				}
				return r
			}
			s.NUnknown++
			return Unknown
		case line == "":
		default:
			// (error ...) or anything unexpected
			sawErr = true
			if len(s.Errors) < 20 {
				s.Errors = append(s.Errors, line)
			}
		}
	}
}

// CheckWith checks satisfiability of the current assertions plus extra.
func (s *Solver) CheckWith(extra ...*Term) Result {
	s.Push()
	for _, e := range extra {
		s.Assert(e)
	}
	r := s.Check()
	s.Pop()
	return r
}

// Model returns values for the given variables; must follow a Sat Check
// with no intervening pop.
func (s *Solver) Model(vars []*Term) (map[string]uint64, error) {
	if s.standaloneModel != nil {
		return s.standaloneModel, nil
	}
	res := map[string]uint64{}
	// chunk to keep lines manageable
	for i := 0; i < len(vars); i += 200 {
		j := i + 200
		if j > len(vars) {
			j = len(vars)
		}
		var sb strings.Builder
		sb.WriteString("(get-value (")
		for _, v := range vars[i:j] {
			sb.WriteString(s.name(v))
			sb.WriteByte(' ')
		}
		sb.WriteString("))\n")
		s.send(sb.String())
		s.flush()
		txt, err := s.readSexp()
		if err != nil {
			return nil, err
		}
		if strings.HasPrefix(txt, "(error") {
			return nil, fmt.Errorf("get-value: %s", txt)
		}
		parseModel(txt, res)
	}
	return res, nil
}

func (s *Solver) readSexp() (string, error) {
	var sb strings.Builder
	depth := 0
	started := false
	inBar := false
	for {
		b, err := s.out.ReadByte()
		if err != nil {
			return sb.String(), err
		}
		sb.WriteByte(b)
		if inBar {
			if b == '|' {
				inBar = false
			}
			continue
		}
		switch b {
		case '|':
			inBar = true
		case '(':
			depth++
			started = true
		case ')':
			depth--
			if started && depth == 0 {
				// consume rest of line
				s.out.ReadString('\n')
				return strings.TrimSpace(sb.String()), nil
			}
		}
	}
}

// parseModel parses ((|a| #x01) (|b| true) ...) into res.
func parseModel(txt string, res map[string]uint64) {
	i := 0
	n := len(txt)
	for i < n {
		// find "(|"
		j := strings.Index(txt[i:], "(|")
		if j < 0 {
			return
		}
		i += j + 2
		k := strings.IndexByte(txt[i:], '|')
		if k < 0 {
			return
		}
		name := txt[i : i+k]
		i += k + 1
		// skip spaces
		for i < n && (txt[i] == ' ' || txt[i] == '\n') {
			i++
		}
		// value until ')'
		e := strings.IndexByte(txt[i:], ')')
		if e < 0 {
			return
		}
		val := strings.TrimSpace(txt[i : i+e])
		i += e + 1
		switch {
		case val == "true":
			res[name] = 1
		case val == "false":
			res[name] = 0
		case strings.HasPrefix(val, "#x"):
			v, _ := strconv.ParseUint(val[2:], 16, 64)
			res[name] = v
		case strings.HasPrefix(val, "#b"):
			v, _ := strconv.ParseUint(val[2:], 2, 64)
			res[name] = v
		}
	}
}

// Script renders a standalone SMT-LIB2 script asserting all of asserts.
func Script(asserts []*Term, withModel bool) string {
	var sb strings.Builder
	defined := map[*Term]string{}
	var def func(t *Term) string
	def = func(t *Term) string {
		if t.Op == OpConst {
			return constStr(t)
		}
		if n, ok := defined[t]; ok {
			return n
		}
		if t.Op == OpVar {
			n := quoteSym(t.Name)
			fmt.Fprintf(&sb, "(declare-const %s %s)\n", n, sortOf(t.W))
			defined[t] = n
			return n
		}
		for _, a := range t.A {
			def(a)
		}
		n := "t" + strconv.Itoa(t.id)
		var b strings.Builder
		t.write(&b, func(a *Term) (string, bool) {
			if a.Op == OpConst {
				return constStr(a), true
			}
			nn, ok := defined[a]
			return nn, ok
		}, 0)
		fmt.Fprintf(&sb, "(define-fun %s () %s %s)\n", n, sortOf(t.W), b.String())
		defined[t] = n
		return n
	}
	for _, a := range asserts {
		n := def(a)
		fmt.Fprintf(&sb, "(assert %s)\n", n)
	}
	sb.WriteString("(check-sat)\n")
	return sb.String()
}

// RunScript runs a standalone script through an external solver binary.
func RunScript(script string, argv []string, timeout time.Duration) (Result, string) {
	cmd := exec.Command(argv[0], argv[1:]...)
	cmd.Stdin = strings.NewReader(script)
	done := make(chan struct{})
	var out []byte
	var err error
	go func() {
		out, err = cmd.CombinedOutput()
		close(done)
	}()
	select {
	case <-done:
	case <-time.After(timeout):
		if cmd.Process != nil {
			cmd.Process.Kill()
		}
		<-done
		return Unknown, "timeout"
	}
	_ = err
	txt := strings.TrimSpace(string(out))
	if strings.Contains(txt, "(error") {
		return Unknown, txt
	}
	lines := strings.Split(txt, "\n")
	last := strings.TrimSpace(lines[len(lines)-1])
	switch last {
	case "sat":
		return Sat, txt
	case "unsat":
		return Unsat, txt
	}
	return Unknown, txt
}

// checkStandalone re-asks the current assertion stack to fresh solver
// processes (z3 with full preprocessing; z3-new as a second opinion).
// A Sat answer obtained this way has no model in the incremental process, so
// callers needing a model will see Unknown from Model(); Unsat is definitive.
func (s *Solver) checkStandalone() Result {
	s.Fallbacks++
	var all []*Term
	for _, lvl := range s.asserted {
		all = append(all, lvl...)
	}
	script := Script(all, false)
	to := s.TimeoutMs
	if to <= 0 {
		to = 60000
	}
	secs := to/1000 + 1
	r, _ := RunScript(script, []string{s.Binary, "-in", "-smt2", fmt.Sprintf("-T:%d", secs)}, time.Duration(secs+5)*time.Second)
	if r == Unknown {
		r, _ = RunScript(script, []string{"z3-new", "-in", "-smt2", fmt.Sprintf("-T:%d", secs)}, time.Duration(secs+5)*time.Second)
	}
	s.standaloneModel = nil
	if r == Sat {
		// fetch a model for every variable of the script
		seen := map[*Term]bool{}
		var vars []*Term
		for _, t := range all {
			t.Vars(seen, &vars)
		}
		var sb strings.Builder
		sb.WriteString(script)
		model := map[string]uint64{}
		if len(vars) > 0 {
			sb.WriteString("(get-value (")
			for _, v := range vars {
				if v.W >= 0 {
					sb.WriteString(quoteSym(v.Name))
					sb.WriteByte(' ')
				}
			}
			sb.WriteString("))\n")
			cmd := exec.Command(s.Binary, "-in", "-smt2", fmt.Sprintf("-T:%d", secs))
			cmd.Stdin = strings.NewReader(sb.String())
			out, _ := cmd.CombinedOutput()
			parseModel(string(out), model)
		}
		s.standaloneModel = model
	}
	return r
}
