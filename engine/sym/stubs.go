package sym

import (
	"fmt"
	"go/types"
	"strings"
	"unsafe"

	"golang.org/x/tools/go/ssa"
)

type poolBag struct{ items []Value }

func fieldPtr(p Value, i int) *Value {
	pp, ok := p.(*Value)
	if !ok || pp == nil {
		panic(runtimeError("invalid memory address or nil pointer dereference"))
	}
	return &(*pp).(Struct)[i]
}

func (in *Interp) makeExternals() map[string]extFn {
	tc := in.tc
	m := map[string]extFn{}
	nop := func(fr *frame, args []Value) Value { return nil }

	// ----- sync.Mutex -----
	m["(*sync.Mutex).Lock"] = func(fr *frame, a []Value) Value { in.mutexLock(a[0].(*Value), fieldPtr(a[0], 0), "W"); return nil }
	m["(*sync.Mutex).Unlock"] = func(fr *frame, a []Value) Value { in.mutexUnlock(a[0].(*Value), fieldPtr(a[0], 0), "W"); return nil }
	m["(*sync.Mutex).TryLock"] = func(fr *frame, a []Value) Value {
		st := fieldPtr(a[0], 0)
		if (*st).(*Term).K != 0 {
			return tc.False
		}
		in.mutexLock(a[0].(*Value), st, "W")
		return tc.True
	}
	// ----- sync.RWMutex: field 0 = w Mutex (state cell reused as writer flag), field 1 = reader count -----
	m["(*sync.RWMutex).Lock"] = func(fr *frame, a []Value) Value {
		in.rwLock(a[0].(*Value), true)
		return nil
	}
	m["(*sync.RWMutex).Unlock"] = func(fr *frame, a []Value) Value {
		in.rwUnlock(a[0].(*Value), true)
		return nil
	}
	m["(*sync.RWMutex).RLock"] = func(fr *frame, a []Value) Value {
		in.rwLock(a[0].(*Value), false)
		return nil
	}
	m["(*sync.RWMutex).RUnlock"] = func(fr *frame, a []Value) Value {
		in.rwUnlock(a[0].(*Value), false)
		return nil
	}
	// ----- sync.WaitGroup: field 2 (sema uint32) is the counter -----
	wgAdd := func(p Value, d int64) {
		c := fieldPtr(p, 2)
		old := (*c).(*Term)
		nv := int64(int32(old.K)) + d
		if in.schedOn() {
			in.thread.muteCells++
			defer func() { in.thread.muteCells-- }()
			in.sev(&SEvent{Kind: "wg-add", Obj: in.lockName(p.(*Value)), N: d})
			*c = tc.BV(32, uint64(int64(int32(old.K))+d))
			return
		}
		in.event(Event{Kind: "wg-add", Obj: in.objName(p.(*Value)), N: d})
		if nv < 0 {
			panic(targetPanic{Iface{T: types.Typ[types.String], V: "sync: negative WaitGroup counter"}})
		}
		*c = tc.BV(32, uint64(nv))
	}
	m["(*sync.WaitGroup).Add"] = func(fr *frame, a []Value) Value {
		wgAdd(a[0], in.concreteInt(a[1], "WaitGroup.Add delta"))
		return nil
	}
	m["(*sync.WaitGroup).Done"] = func(fr *frame, a []Value) Value { wgAdd(a[0], -1); return nil }
	m["(*sync.WaitGroup).Wait"] = func(fr *frame, a []Value) Value {
		c := fieldPtr(a[0], 2)
		if in.schedOn() {
			in.sev(&SEvent{Kind: "wg-wait", Obj: in.lockName(a[0].(*Value))})
			return nil
		}
		in.event(Event{Kind: "wg-wait", Obj: in.objName(a[0].(*Value))})
		if (*c).(*Term).K != 0 && in.thread == nil {
			if in.param("wg_wait_nonblocking", 0) == 1 {
				return nil
			}
			panic(pathEnd{"blocked", "WaitGroup.Wait with non-zero counter"})
		}
		return nil
	}
	// ----- syscall.Syscall(SYS_RECVMSG, fd, &msghdr, flags): the iovec list is
	// decoded from the (engine) heap and handed, as slices aliasing the
	// caller's buffers, to the harness's model of the kernel
	// (//verif:intercept syscall.recvmsg=<fn>(fd uintptr, bufs [][]byte) (int, syscall.Errno)) -----
	m["syscall.Syscall"] = func(fr *frame, a []Value) Value {
		trap := in.concreteInt(a[0], "system call number")
		if trap != 47 { // SYS_RECVMSG on linux/amd64
			panic(engineErr{fmt.Sprintf("syscall.Syscall(%d) is not modelled", trap)})
		}
		model, ok := in.redir["syscall.recvmsg"]
		if !ok {
			panic(engineErr{"recvmsg(2) reached but the harness declares no model (//verif:intercept syscall.recvmsg=...)"})
		}
		up, ok := a[2].(UnsafePtr)
		if !ok {
			panic(engineErr{"recvmsg: msghdr argument is not a pointer"})
		}
		msg := (*up.P.(*Value)).(Struct)
		// linux/amd64 Msghdr: Name, Namelen, Pad_cgo_0, Iov, Iovlen, Control, Controllen, Flags, Pad_cgo_1
		n := int(in.concreteInt(msg[4], "msghdr.Iovlen"))
		var bufs Slice
		if n > 0 {
			iov0, ok := msg[3].(*Value)
			if !ok || iov0 == nil {
				panic(runtimeError("recvmsg: EFAULT (nil iovec pointer with iovlen > 0)"))
			}
			iovs := unsafe.Slice(iov0, n)
			for i := range iovs {
				iv := iovs[i].(Struct)
				l := int(in.concreteInt(iv[1], "iovec.Len"))
				base, _ := iv[0].(*Value)
				if l == 0 || base == nil {
					bufs = append(bufs, Slice{})
					continue
				}
				bufs = append(bufs, Slice(unsafe.Slice(base, l)))
			}
		}
		if bufs == nil {
			bufs = Slice{}
		}
		res := in.callSSA(fr, fr.callPos, model, []Value{a[1], bufs}, nil).(Tuple)
		cnt := res[0].(*Term)
		return Tuple{cnt, tc.BV(64, 0), res[1]}
	}
	// ----- sync.Cond: field 1 is L. Wait = register, L.Unlock, sleep until a
	// Broadcast/Signal that follows the registration, L.Lock -----
	condL := func(fr *frame, c Value, name string) {
		l, ok := (*fieldPtr(c, 1)).(Iface)
		if !ok || l.T == nil {
			panic(runtimeError("invalid memory address or nil pointer dereference (sync.Cond without L)"))
		}
		f := in.findMethod(l.T, name)
		if f == nil {
			panic(engineErr{"sync.Cond: L has no method " + name})
		}
		in.call(fr, fr.callPos, f, []Value{l.V})
	}
	m["(*sync.Cond).Wait"] = func(fr *frame, a []Value) Value {
		if !in.schedOn() {
			in.event(Event{Kind: "cond-wait", Obj: in.objName(a[0].(*Value))})
			panic(pathEnd{"blocked", "sync.Cond.Wait with nobody to wake it (sequential run)"})
		}
		obj := in.lockName(a[0].(*Value))
		in.sev(&SEvent{Kind: "cond-reg", Obj: obj})
		condL(fr, a[0], "Unlock")
		in.sev(&SEvent{Kind: "cond-wait", Obj: obj, Mode: "wait"})
		condL(fr, a[0], "Lock")
		return nil
	}
	condWake := func(fr *frame, a []Value) Value {
		if in.schedOn() {
			// (Signal is treated as Broadcast: it may wake any one waiter)
			in.sev(&SEvent{Kind: "cond-bcast", Obj: in.lockName(a[0].(*Value))})
		} else {
			in.event(Event{Kind: "cond-bcast", Obj: in.objName(a[0].(*Value))})
		}
		return nil
	}
	m["(*sync.Cond).Broadcast"] = condWake
	m["(*sync.Cond).Signal"] = condWake
	// ----- sync.Pool: field 1 (local) holds the bag, field 5 is New -----
	m["(*sync.Pool).Get"] = func(fr *frame, a []Value) Value {
		if in.schedOn() {
			// schedule mode: pools are not shared between threads (recycling is C18's subject)
			newf := (*a[0].(*Value)).(Struct)[5]
			if isNilValue(newf) {
				return Iface{}
			}
			return in.call(fr, fr.callPos, newf, nil)
		}
		local := fieldPtr(a[0], 1)
		bag, _ := (*local).(UnsafePtr).P.(*poolBag)
		n := 0
		if bag != nil {
			n = len(bag.items)
		}
		if n > 0 {
			k := n - 1 // LIFO like a single P
			if in.param("pool_fork", 0) == 1 {
				c := in.choice(n+1, "pool.Get")
				if c == n {
					k = -1
				} else {
					k = c
				}
			}
			if k >= 0 {
				v := bag.items[k]
				bag.items = append(append([]Value{}, bag.items[:k]...), bag.items[k+1:]...)
				return v
			}
		}
		newf := *fieldPtr(a[0], 5)
		if isNilValue(newf) {
			return Iface{}
		}
		return in.call(fr, fr.callPos, newf, nil)
	}
	m["(*sync.Pool).Put"] = func(fr *frame, a []Value) Value {
		if isNilValue(a[1]) || in.schedOn() {
			return nil
		}
		local := fieldPtr(a[0], 1)
		bag, _ := (*local).(UnsafePtr).P.(*poolBag)
		if bag == nil {
			bag = &poolBag{}
			*local = UnsafePtr{P: bag}
		}
		bag.items = append(bag.items, a[1])
		return nil
	}
	// ----- sync.Map: field 2 (dirty) holds a *Map of Iface -> Iface -----
	smap := func(p Value) *Map {
		d := fieldPtr(p, 2)
		mm, _ := (*d).(*Map)
		if mm == nil {
			mm = in.newMap()
			*d = mm
		}
		return mm
	}
	m["(*sync.Map).Load"] = func(fr *frame, a []Value) Value {
		mm := smap(a[0])
		in.mapEvent(mm, "rd", a[1])
		v, ok := in.mapLookup(mm, a[1])
		if !ok {
			return Tuple{Iface{}, tc.False}
		}
		return Tuple{v, tc.True}
	}
	m["(*sync.Map).Store"] = func(fr *frame, a []Value) Value {
		mm := smap(a[0])
		in.mapEvent(mm, "wr", a[1])
		in.mapInsert(mm, a[1], a[2])
		return nil
	}
	m["(*sync.Map).LoadOrStore"] = func(fr *frame, a []Value) Value {
		mm := smap(a[0])
		in.mapEvent(mm, "wr", a[1])
		if v, ok := in.mapLookup(mm, a[1]); ok {
			return Tuple{v, tc.True}
		}
		in.mapInsert(mm, a[1], a[2])
		return Tuple{a[2], tc.False}
	}
	m["(*sync.Map).Delete"] = func(fr *frame, a []Value) Value {
		mm := smap(a[0])
		in.mapEvent(mm, "wr", a[1])
		in.mapDelete(mm, a[1])
		return nil
	}

	// ----- sync/atomic -----
	atomicAdd := func(fr *frame, a []Value) Value {
		p := a[0].(*Value)
		if p == nil {
			panic(runtimeError("invalid memory address or nil pointer dereference"))
		}
		old := (*p).(*Term)
		nv := tc.Bin(OpAdd, old, a[1].(*Term))
		nv = in.atomicRMW(p, "add", old, nv)
		return nv
	}
	atomicLoad := func(fr *frame, a []Value) Value {
		p := a[0].(*Value)
		if p == nil {
			panic(runtimeError("invalid memory address or nil pointer dereference"))
		}
		in.cellEventAtomic(p, false)
		if in.thread != nil {
			if v, ok := in.schedAtomicLoad(p); ok {
				return v
			}
			if v, ok := in.schedLoad(p); ok {
				return v
			}
		}
		return *p
	}
	atomicStore := func(fr *frame, a []Value) Value {
		p := a[0].(*Value)
		if p == nil {
			panic(runtimeError("invalid memory address or nil pointer dereference"))
		}
		in.cellEventAtomic(p, true)
		if in.thread != nil {
			in.schedStoreValue(p, a[1])
		}
		*p = a[1]
		return nil
	}
	atomicCAS := func(fr *frame, a []Value) Value {
		p := a[0].(*Value)
		if in.schedOn() {
			if name, ok := in.thread.full.cells[p]; ok && in.thread.atomics[name] {
				oldT, okO := a[1].(*Term)
				newT, okN := a[2].(*Term)
				cur, okC := (*p).(*Term)
				if okO && okN && okC {
					ev := in.sev(&SEvent{Kind: "rmw", Obj: name})
					x := tc.Var(fmt.Sprintf("X_%s_%d_w%d", in.thread.full.name, len(in.thread.trace.Events), cur.W), cur.W)
					ev.X = x
					in.constrainX(name, x)
					seen := tc.Bin(OpAdd, cur, x)
					if in.branch(tc.Eq(seen, oldT)) {
						d, okD := constDiff(tc, newT, oldT)
						if !okD {
							panic(engineErr{"CAS with symbolic delta"})
						}
						ev.Delta = d
						*p = tc.Bin(OpAdd, cur, tc.BV(cur.W, uint64(d)))
						return tc.True
					}
					ev.Kind = "ard"
					// a CAS fails only if another thread's RMW came in between: bounded by their number
					if in.thread.casFails == nil {
						in.thread.casFails = map[string]int{}
					}
					in.thread.casFails[name]++
					if in.thread.casFails[name] > len(in.thread.deltas[name]) {
						panic(pathEnd{"assume", "more CAS failures than RMWs of the other threads"})
					}
					return tc.False
				}
			}
		}
		in.cellEventAtomic(p, true)
		eq := in.equals(*p, a[1])
		if in.branch(eq) {
			*p = a[2]
			return tc.True
		}
		return tc.False
	}
	atomicSwap := func(fr *frame, a []Value) Value {
		p := a[0].(*Value)
		in.cellEventAtomic(p, true)
		old := *p
		*p = a[1]
		return old
	}
	for _, t := range []string{"Int32", "Int64", "Uint32", "Uint64", "Uintptr"} {
		m["sync/atomic.Add"+t] = atomicAdd
		m["sync/atomic.Load"+t] = atomicLoad
		m["sync/atomic.Store"+t] = atomicStore
		m["sync/atomic.CompareAndSwap"+t] = atomicCAS
		m["sync/atomic.Swap"+t] = atomicSwap
	}
	m["sync/atomic.LoadPointer"] = atomicLoad
	m["sync/atomic.StorePointer"] = atomicStore
	m["sync/atomic.CompareAndSwapPointer"] = atomicCAS
	m["sync/atomic.SwapPointer"] = atomicSwap

	// ----- runtime & co -----
	m["runtime.SetFinalizer"] = nop
	m["runtime.KeepAlive"] = nop
	m["runtime.Gosched"] = nop
	m["runtime/debug.Stack"] = func(fr *frame, a []Value) Value { return Slice{} }
	m["runtime.GOMAXPROCS"] = func(fr *frame, a []Value) Value { return tc.BV(64, 1) }
	m["(*strings.Builder).copyCheck"] = nop
	m["(*strings.Builder).String"] = func(fr *frame, a []Value) Value {
		buf := (*fieldPtr(a[0], 1)).(Slice)
		b := make([]*Term, len(buf))
		for i, v := range buf {
			b[i] = v.(*Term)
		}
		return mkStr(b)
	}
	m["strings.Join"] = func(fr *frame, a []Value) Value {
		elems := a[0].(Slice)
		sep := in.strBytes(a[1])
		var out []*Term
		for i, e := range elems {
			if i > 0 {
				out = append(out, sep...)
			}
			out = append(out, in.strBytes(e)...)
		}
		return mkStr(out)
	}
	m["strings.Clone"] = func(fr *frame, a []Value) Value { return a[0] }
	m["internal/stringslite.Clone"] = m["strings.Clone"]

	// ----- internal/bytealg leaves (assembly in the real build) -----
	idxByte := func(b []*Term, c *Term) Value {
		for i, x := range b {
			if in.branch(tc.Eq(x, c)) {
				return tc.BV(64, uint64(i))
			}
		}
		return tc.BV(64, ^uint64(0))
	}
	sliceBytes := func(v Value) []*Term {
		s := v.(Slice)
		b := make([]*Term, len(s))
		for i, x := range s {
			b[i] = x.(*Term)
		}
		return b
	}
	m["internal/bytealg.IndexByteString"] = func(fr *frame, a []Value) Value { return idxByte(in.strBytes(a[0]), a[1].(*Term)) }
	m["internal/bytealg.IndexByte"] = func(fr *frame, a []Value) Value { return idxByte(sliceBytes(a[0]), a[1].(*Term)) }
	cnt := func(b []*Term, c *Term) Value {
		n := 0
		for _, x := range b {
			if in.branch(tc.Eq(x, c)) {
				n++
			}
		}
		return tc.BV(64, uint64(n))
	}
	m["internal/bytealg.CountString"] = func(fr *frame, a []Value) Value { return cnt(in.strBytes(a[0]), a[1].(*Term)) }
	m["internal/bytealg.Count"] = func(fr *frame, a []Value) Value { return cnt(sliceBytes(a[0]), a[1].(*Term)) }
	idxStr := func(s, sub []*Term) Value {
		for i := 0; i+len(sub) <= len(s); i++ {
			eq := tc.True
			for j := range sub {
				eq = tc.And(eq, tc.Eq(s[i+j], sub[j]))
			}
			if in.branch(eq) {
				return tc.BV(64, uint64(i))
			}
		}
		return tc.BV(64, ^uint64(0))
	}
	m["internal/bytealg.IndexString"] = func(fr *frame, a []Value) Value { return idxStr(in.strBytes(a[0]), in.strBytes(a[1])) }
	m["internal/bytealg.Index"] = func(fr *frame, a []Value) Value { return idxStr(sliceBytes(a[0]), sliceBytes(a[1])) }
	m["strings.Index"] = func(fr *frame, a []Value) Value { return idxStr(in.strBytes(a[0]), in.strBytes(a[1])) }
	m["strings.Contains"] = func(fr *frame, a []Value) Value {
		// pure: returns a term without forking
		s, sub := in.strBytes(a[0]), in.strBytes(a[1])
		r := tc.False
		for i := 0; i+len(sub) <= len(s); i++ {
			eq := tc.True
			for j := range sub {
				eq = tc.And(eq, tc.Eq(s[i+j], sub[j]))
			}
			r = tc.Or(r, eq)
		}
		return r
	}
	m["internal/bytealg.Equal"] = func(fr *frame, a []Value) Value {
		x, y := sliceBytes(a[0]), sliceBytes(a[1])
		if len(x) != len(y) {
			return tc.False
		}
		r := tc.True
		for i := range x {
			r = tc.And(r, tc.Eq(x[i], y[i]))
		}
		return r
	}
	m["bytes.Equal"] = m["internal/bytealg.Equal"]

	// ----- errors -----
	m["errors.Is"] = func(fr *frame, a []Value) Value {
		err, target := a[0].(Iface), a[1].(Iface)
		if err.T == nil || target.T == nil {
			return in.equals(err, target)
		}
		isFn := in.prog.ImportedPackage("errors").Func("is")
		return in.callSSA(fr, fr.callPos, isFn, []Value{err, target, tc.Bool(types.Comparable(target.T))}, nil)
	}
	m["errors.As"] = func(fr *frame, a []Value) Value { return in.errorsAs(fr, a[0].(Iface), a[1].(Iface)) }

	// ----- fmt / log -----
	m["fmt.Sprintf"] = func(fr *frame, a []Value) Value { return in.sprintf(a[0], a[1].(Slice)) }
	m["fmt.Sprint"] = func(fr *frame, a []Value) Value { return in.sprintf("%v", a[0].(Slice)) }
	m["fmt.Sprintln"] = func(fr *frame, a []Value) Value { return in.sprintf("%v\n", a[0].(Slice)) }
	m["fmt.Errorf"] = func(fr *frame, a []Value) Value { return in.errorf(fr, a[0], a[1].(Slice)) }
	zeroIntErr := func(fr *frame, a []Value) Value { return Tuple{tc.BV(64, 0), Iface{}} }
	m["fmt.Printf"] = zeroIntErr
	m["fmt.Println"] = zeroIntErr
	m["fmt.Print"] = zeroIntErr
	m["fmt.Fprintf"] = zeroIntErr
	m["fmt.Fprintln"] = zeroIntErr
	m["fmt.Fprint"] = zeroIntErr
	m["log.Printf"] = nop
	m["log.Println"] = nop
	m["log.Print"] = nop
	m["(*log.Logger).Printf"] = nop
	m["(*log.Logger).Print"] = nop
	m["(*log.Logger).Println"] = nop
	m["log.Default"] = func(fr *frame, a []Value) Value { return (*Value)(nil) }

	// io.Discard.ReadFrom: the real code drains through a pooled 8 KiB scratch
	// buffer; the model drains through an unbounded scratch buffer whose content
	// is never looked at (same bytes consumed from the reader; fewer Read calls
	// for readers that return as much as asked).
	m["(io.discard).ReadFrom"] = func(fr *frame, a []Value) Value {
		r := a[1].(Iface)
		if r.T == nil {
			panic(runtimeError("invalid memory address or nil pointer dereference"))
		}
		readFn := in.findMethod(r.T, "Read")
		eofVar := in.prog.ImportedPackage("io").Var("EOF")
		total := tc.BV(64, 0)
		for iter := 0; ; iter++ {
			if iter > in.param("unwind", 64) {
				panic(pathEnd{"unwind", "io.Discard drain loop"})
			}
			in.nextObjID++
			in.path.nvars++
			buf := &SymSlice{Mem: &SymMem{ID: in.nextObjID, Arr: tc.ArrayVar(fmt.Sprintf("i%d_discard", in.path.nvars))},
				Off: tc.BV(64, 0), Len: tc.BV(64, 1<<40), Cap: tc.BV(64, 1<<40)}
			res := in.callSSA(fr, fr.callPos, readFn, []Value{r.V, buf}, nil).(Tuple)
			total = tc.Bin(OpAdd, total, res[0].(*Term))
			err := res[1].(Iface)
			if err.T != nil {
				if in.branch(in.equals(err, *in.globalAddr(eofVar))) {
					return Tuple{total, Iface{}}
				}
				return Tuple{total, err}
			}
		}
	}

	in.addHarnessIntrinsics(m)
	in.addHavocIntrinsics(m)
	return m
}

// ---------- mutex models ----------

func (in *Interp) lockName(obj *Value) string {
	if in.schedOn() {
		if n, ok := in.thread.full.cells[obj]; ok {
			return n
		}
		return in.thread.full.name + ":" + in.objName(obj)
	}
	return in.objName(obj)
}

func (in *Interp) lockEvent(kind, name, mode string, self, nested bool) {
	if in.schedOn() {
		if nested {
			return
		}
		th := in.thread
		if th.secCount == nil {
			th.secCount, th.heldSec, th.decided, th.ownWrote = map[string]int{}, map[string]lockRef{}, map[string]bool{}, map[string]bool{}
		}
		if kind == "acq" && !self {
			th.secCount[name]++
			th.heldSec[name] = lockRef{Mode: mode, Sec: th.secCount[name]}
		} else if kind == "rel" {
			delete(th.heldSec, name)
		}
		in.sev(&SEvent{Kind: kind, Obj: name, Mode: mode, Self: self})
		return
	}
	in.event(Event{Kind: kind, Obj: name, Mode: mode, Self: self, Nested: nested})
}

func (in *Interp) mutexLock(obj *Value, st *Value, mode string) {
	name := in.lockName(obj)
	if in.thread != nil {
		if in.thread.held[obj] != "" {
			in.lockEvent("acq", name, mode, true, false)
			panic(pathEnd{"deadlock", "re-lock of " + name + " by the thread holding it"})
		}
		in.thread.held[obj] = mode
		in.lockEvent("acq", name, mode, false, false)
		return
	}
	in.event(Event{Kind: "acq", Obj: name, Mode: mode})
	if (*st).(*Term).K != 0 {
		panic(pathEnd{"deadlock", "lock of held mutex " + name})
	}
	*st = in.tc.BV(32, 1)
}

func (in *Interp) mutexUnlock(obj *Value, st *Value, mode string) {
	name := in.lockName(obj)
	in.lockEvent("rel", name, mode, false, false)
	if in.thread != nil {
		if in.thread.held[obj] == "" {
			panic(targetPanic{Iface{T: types.Typ[types.String], V: "sync: unlock of unlocked mutex"}})
		}
		delete(in.thread.held, obj)
		return
	}
	if (*st).(*Term).K == 0 {
		panic(targetPanic{Iface{T: types.Typ[types.String], V: "sync: unlock of unlocked mutex"}})
	}
	*st = in.tc.BV(32, 0)
}

func (in *Interp) rwLock(obj *Value, write bool) {
	name := in.lockName(obj)
	w := &(*fieldPtr(obj, 0)).(Struct)[0] // w.state
	rc := fieldPtr(obj, 1)                // writerSem reused as reader count
	mode := "R"
	if write {
		mode = "W"
	}
	if in.thread != nil {
		if h := in.thread.held[obj]; h != "" {
			// Go's RWMutex: recursive read locking is unsafe only with a waiting
			// writer; W after R/W and R after W by the same thread self-deadlock.
			if write || h == "W" {
				in.lockEvent("acq", name, mode, true, false)
				panic(pathEnd{"deadlock", "re-lock of " + name + " by the thread holding it"})
			}
			in.thread.rdepth[obj]++
			in.lockEvent("acq", name, mode, false, true)
			return
		}
		in.thread.held[obj] = mode
		in.lockEvent("acq", name, mode, false, false)
		return
	}
	in.event(Event{Kind: "acq", Obj: name, Mode: mode})
	if write {
		if (*w).(*Term).K != 0 || (*rc).(*Term).K != 0 {
			panic(pathEnd{"deadlock", "write lock of held rwmutex " + name})
		}
		*w = in.tc.BV(32, 1)
	} else {
		if (*w).(*Term).K != 0 {
			panic(pathEnd{"deadlock", "read lock of write-held rwmutex " + name})
		}
		*rc = in.tc.BV(32, (*rc).(*Term).K+1)
	}
}

func (in *Interp) rwUnlock(obj *Value, write bool) {
	name := in.lockName(obj)
	w := &(*fieldPtr(obj, 0)).(Struct)[0]
	rc := fieldPtr(obj, 1)
	mode := "R"
	if write {
		mode = "W"
	}
	if in.thread != nil {
		if in.thread.rdepth[obj] > 0 && !write {
			in.thread.rdepth[obj]--
			in.lockEvent("rel", name, mode, false, true)
			return
		}
		if in.thread.held[obj] != mode {
			panic(targetPanic{Iface{T: types.Typ[types.String], V: "sync: unlock of unlocked RWMutex"}})
		}
		delete(in.thread.held, obj)
		in.lockEvent("rel", name, mode, false, false)
		return
	}
	in.event(Event{Kind: "rel", Obj: name, Mode: mode})
	if write {
		if (*w).(*Term).K == 0 {
			panic(targetPanic{Iface{T: types.Typ[types.String], V: "sync: Unlock of unlocked RWMutex"}})
		}
		*w = in.tc.BV(32, 0)
	} else {
		if (*rc).(*Term).K == 0 {
			panic(targetPanic{Iface{T: types.Typ[types.String], V: "sync: RUnlock of unlocked RWMutex"}})
		}
		*rc = in.tc.BV(32, (*rc).(*Term).K-1)
	}
}

// ---------- errors.As ----------

func (in *Interp) errorsAs(fr *frame, err Iface, target Iface) Value {
	tc := in.tc
	if target.T == nil {
		panic(targetPanic{Iface{T: types.Typ[types.String], V: "errors: target cannot be nil"}})
	}
	pt, ok := target.T.Underlying().(*types.Pointer)
	if !ok {
		panic(targetPanic{Iface{T: types.Typ[types.String], V: "errors: target must be a non-nil pointer"}})
	}
	tp := target.V.(*Value)
	targetType := pt.Elem()
	var walk func(e Iface) bool
	walk = func(e Iface) bool {
		for e.T != nil {
			if types.AssignableTo(e.T, targetType) {
				if _, isI := targetType.Underlying().(*types.Interface); isI {
					*tp = e
				} else {
					*tp = copyVal(e.V)
				}
				return true
			}
			if f := in.findMethod(e.T, "As"); f != nil && f.Signature.Params().Len() == 1 {
				r := in.callSSA(fr, fr.callPos, f, []Value{e.V, target}, nil)
				if in.branch(r.(*Term)) {
					return true
				}
			}
			if f := in.findMethod(e.T, "Unwrap"); f != nil && f.Signature.Results().Len() == 1 {
				rt := f.Signature.Results().At(0).Type()
				r := in.callSSA(fr, fr.callPos, f, []Value{e.V}, nil)
				if _, isSlice := rt.Underlying().(*types.Slice); isSlice {
					for _, x := range r.(Slice) {
						if xi := x.(Iface); xi.T != nil && walk(xi) {
							return true
						}
					}
					return false
				}
				e = r.(Iface)
				continue
			}
			return false
		}
		return false
	}
	return tc.Bool(walk(err))
}

func (in *Interp) findMethod(t types.Type, name string) *ssa.Function {
	ms := in.prog.MethodSets.MethodSet(t)
	for i := 0; i < ms.Len(); i++ {
		sel := ms.At(i)
		if sel.Obj().Name() == name {
			return in.prog.MethodValue(sel)
		}
	}
	return nil
}

// ---------- fmt ----------

func (in *Interp) goValue(v Value) interface{} {
	switch v := v.(type) {
	case Iface:
		if v.T == nil {
			return nil
		}
		switch x := v.V.(type) {
		case *Term:
			if !x.IsConst() {
				return "?"
			}
			if x.W == 0 {
				return x.K == 1
			}
			if isSigned(v.T) {
				return x.Int64()
			}
			return x.K
		case string:
			return x
		case *SymStr:
			return "?str"
		case float64:
			return x
		}
		// error / Stringer values: try Error() or String()
		for _, mn := range []string{"Error", "String"} {
			if f := in.findMethod(v.T, mn); f != nil && f.Signature.Params().Len() == 0 && f.Signature.Results().Len() == 1 {
				if b, ok := f.Signature.Results().At(0).Type().Underlying().(*types.Basic); ok && b.Kind() == types.String {
					var out interface{} = "<" + v.T.String() + ">"
					func() {
						defer func() {
							if r := recover(); r != nil {
								if _, ok := r.(pathEnd); ok {
									panic(r)
								}
							}
						}()
						r := in.callSSA(nil, 0, f, []Value{v.V}, nil)
						if s, ok := r.(string); ok {
							out = s
						}
					}()
					return out
				}
			}
		}
		return in.valString(v.V)
	}
	return in.valString(v)
}

func (in *Interp) sprintf(format Value, args Slice) Value {
	fs, ok := format.(string)
	if !ok {
		return "<fmt>"
	}
	// exact model for decimal rendering of symbolic integers where the result is parsed back
	if strings.HasSuffix(fs, "%d") && strings.Count(fs, "%") == 1 && len(args) == 1 {
		if itf, ok := args[0].(Iface); ok {
			if t, ok := itf.V.(*Term); ok && !t.IsConst() {
				v := in.concretize(t, "fmt %d argument")
				if isSigned(itf.T) {
					return fmt.Sprintf(fs, v)
				}
				return fmt.Sprintf(fs, uint64(v)&mask(t.W))
			}
		}
	}
	gargs := make([]interface{}, len(args))
	for i, a := range args {
		gargs[i] = in.goValue(a)
	}
	return fmt.Sprintf(fs, gargs...)
}

func (in *Interp) errorf(fr *frame, format Value, args Slice) Value {
	fs, _ := format.(string)
	msg := in.sprintf(strings.ReplaceAll(fs, "%w", "%v"), args)
	// locate %w operands
	var wrapped []Value
	argi := 0
	for i := 0; i < len(fs); i++ {
		if fs[i] != '%' {
			continue
		}
		i++
		for i < len(fs) && strings.IndexByte("+-# 0123456789.", fs[i]) >= 0 {
			i++
		}
		if i >= len(fs) {
			break
		}
		if fs[i] == '%' {
			continue
		}
		if fs[i] == 'w' && argi < len(args) {
			if e, ok := args[argi].(Iface); ok && e.T != nil {
				wrapped = append(wrapped, e)
			}
		}
		argi++
	}
	fmtPkg := in.prog.ImportedPackage("fmt")
	switch len(wrapped) {
	case 0:
		newFn := in.prog.ImportedPackage("errors").Func("New")
		return in.callSSA(fr, fr.callPos, newFn, []Value{msg}, nil)
	case 1:
		t := fmtPkg.Type("wrapError").Type()
		p := new(Value)
		*p = Struct{msg, wrapped[0]}
		return Iface{T: types.NewPointer(t), V: p}
	default:
		t := fmtPkg.Type("wrapErrors").Type()
		p := new(Value)
		*p = Struct{msg, Slice(wrapped)}
		return Iface{T: types.NewPointer(t), V: p}
	}
}

// constDiff returns a-b when it is a constant (also for a = b + k).
func constDiff(tc *TermCtx, a, b *Term) (int64, bool) {
	d := tc.Bin(OpSub, a, b)
	if d.IsConst() {
		return d.Int64(), true
	}
	if a.Op == OpAdd {
		if a.A[0] == b && a.A[1].IsConst() {
			return a.A[1].Int64(), true
		}
		if a.A[1] == b && a.A[0].IsConst() {
			return a.A[0].Int64(), true
		}
	}
	return 0, false
}
