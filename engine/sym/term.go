package sym

import (
	"fmt"
	"math/bits"
	"strconv"
	"strings"
)

// Term is a hash-consed SMT term: Bool (W==0) or bit-vector of width W (1..64),
// or an array (W==-1) from BV64 to BV8.
type Term struct {
	Op   Op
	W    int // 0 = Bool, >0 = BV width, -1 = Array(BV64->BV8)
	A    []*Term
	K    uint64 // constant value / extract hi<<8|lo / ext amount
	Name string // for Var
	id   int
}

type Op uint8

const (
	OpConst Op = iota
	OpVar
	OpNot // bool not
	OpAnd // bool and (n-ary binary)
	OpOr  // bool or
	OpEq  // equality on same-sorted terms -> Bool
	OpIte // ite(c, a, b) any sort
	OpUlt // bv unsigned <
	OpUle
	OpSlt
	OpSle
	OpAdd
	OpSub
	OpMul
	OpUdiv
	OpUrem
	OpSdiv
	OpSrem
	OpBvAnd
	OpBvOr
	OpBvXor
	OpBvNot
	OpNeg
	OpShl
	OpLshr
	OpAshr
	OpConcat
	OpExtract // K = hi<<8 | lo
	OpZext    // result width W
	OpSext
	OpSelect   // array select
	OpStore    // array store
	OpConstArr // constant array, K = byte
)

var opNames = map[Op]string{
	OpNot: "not", OpAnd: "and", OpOr: "or", OpEq: "=", OpIte: "ite",
	OpUlt: "bvult", OpUle: "bvule", OpSlt: "bvslt", OpSle: "bvsle",
	OpAdd: "bvadd", OpSub: "bvsub", OpMul: "bvmul", OpUdiv: "bvudiv", OpUrem: "bvurem",
	OpSdiv: "bvsdiv", OpSrem: "bvsrem", OpBvAnd: "bvand", OpBvOr: "bvor", OpBvXor: "bvxor",
	OpBvNot: "bvnot", OpNeg: "bvneg", OpShl: "bvshl", OpLshr: "bvlshr", OpAshr: "bvashr",
	OpConcat: "concat", OpSelect: "select", OpStore: "store",
}

// TermCtx owns the hash-consing table. Not safe for concurrent use.
type TermCtx struct {
	tab    map[string]*Term
	nextID int
	True   *Term
	False  *Term
	nvars  int
}

func NewTermCtx() *TermCtx {
	c := &TermCtx{tab: make(map[string]*Term)}
	c.True = c.mk(&Term{Op: OpConst, W: 0, K: 1})
	c.False = c.mk(&Term{Op: OpConst, W: 0, K: 0})
	return c
}

func (c *TermCtx) key(t *Term) string {
	var sb strings.Builder
	sb.WriteByte(byte(t.Op))
	sb.WriteByte(byte(t.W + 1))
	if t.Op == OpConst || t.Op == OpExtract || t.Op == OpConstArr {
		sb.WriteString(strconv.FormatUint(t.K, 16))
	}
	if t.Op == OpVar {
		sb.WriteString(t.Name)
	}
	for _, a := range t.A {
		sb.WriteByte(',')
		sb.WriteString(strconv.Itoa(a.id))
	}
	return sb.String()
}

func (c *TermCtx) mk(t *Term) *Term {
	k := c.key(t)
	if e, ok := c.tab[k]; ok {
		return e
	}
	c.nextID++
	t.id = c.nextID
	c.tab[k] = t
	return t
}

func (t *Term) ID() int       { return t.id }
func (t *Term) IsConst() bool { return t.Op == OpConst }
func (t *Term) IsBool() bool  { return t.W == 0 }
func (t *Term) IsTrue() bool  { return t.Op == OpConst && t.W == 0 && t.K == 1 }
func (t *Term) IsFalse() bool { return t.Op == OpConst && t.W == 0 && t.K == 0 }

func mask(w int) uint64 {
	if w >= 64 {
		return ^uint64(0)
	}
	return (uint64(1) << uint(w)) - 1
}

// Signed value of a constant.
func (t *Term) Int64() int64 {
	if t.W >= 64 || t.W <= 0 {
		return int64(t.K)
	}
	if t.K&(1<<uint(t.W-1)) != 0 {
		return int64(t.K | ^mask(t.W))
	}
	return int64(t.K)
}

func (c *TermCtx) Bool(b bool) *Term {
	if b {
		return c.True
	}
	return c.False
}

func (c *TermCtx) BV(w int, v uint64) *Term {
	if w <= 0 || w > 64 {
		panic(fmt.Sprintf("bad width %d", w))
	}
	return c.mk(&Term{Op: OpConst, W: w, K: v & mask(w)})
}

func (c *TermCtx) Var(name string, w int) *Term {
	return c.mk(&Term{Op: OpVar, W: w, Name: name})
}

// FreshVar creates a new uniquely named variable.
func (c *TermCtx) FreshVar(prefix string, w int) *Term {
	c.nvars++
	return c.Var(fmt.Sprintf("%s!%d", prefix, c.nvars), w)
}

func (c *TermCtx) Not(a *Term) *Term {
	if a.IsConst() {
		return c.Bool(a.K == 0)
	}
	if a.Op == OpNot {
		return a.A[0]
	}
	return c.mk(&Term{Op: OpNot, W: 0, A: []*Term{a}})
}

func (c *TermCtx) And(a, b *Term) *Term {
	if a.IsConst() {
		if a.K == 0 {
			return c.False
		}
		return b
	}
	if b.IsConst() {
		if b.K == 0 {
			return c.False
		}
		return a
	}
	if a == b {
		return a
	}
	return c.mk(&Term{Op: OpAnd, W: 0, A: []*Term{a, b}})
}

func (c *TermCtx) Or(a, b *Term) *Term {
	if a.IsConst() {
		if a.K == 1 {
			return c.True
		}
		return b
	}
	if b.IsConst() {
		if b.K == 1 {
			return c.True
		}
		return a
	}
	if a == b {
		return a
	}
	return c.mk(&Term{Op: OpOr, W: 0, A: []*Term{a, b}})
}

func (c *TermCtx) Implies(a, b *Term) *Term { return c.Or(c.Not(a), b) }

func (c *TermCtx) Eq(a, b *Term) *Term {
	if a.W != b.W {
		panic(fmt.Sprintf("Eq width mismatch %d vs %d", a.W, b.W))
	}
	if a == b {
		return c.True
	}
	if a.IsConst() && b.IsConst() {
		return c.Bool(a.K == b.K)
	}
	if a.W == 0 {
		// boolean equality with constant
		if a.IsConst() {
			if a.K == 1 {
				return b
			}
			return c.Not(b)
		}
		if b.IsConst() {
			if b.K == 1 {
				return a
			}
			return c.Not(a)
		}
	}
	if a.id > b.id {
		a, b = b, a
	}
	return c.mk(&Term{Op: OpEq, W: 0, A: []*Term{a, b}})
}

func (c *TermCtx) Ite(cond, a, b *Term) *Term {
	if a.W != b.W {
		panic("Ite width mismatch")
	}
	if cond.IsConst() {
		if cond.K == 1 {
			return a
		}
		return b
	}
	if a == b {
		return a
	}
	if a.W == 0 {
		if a.IsTrue() && b.IsFalse() {
			return cond
		}
		if a.IsFalse() && b.IsTrue() {
			return c.Not(cond)
		}
		if a.IsTrue() {
			return c.Or(cond, b)
		}
		if a.IsFalse() {
			return c.And(c.Not(cond), b)
		}
		if b.IsTrue() {
			return c.Or(c.Not(cond), a)
		}
		if b.IsFalse() {
			return c.And(cond, a)
		}
	}
	return c.mk(&Term{Op: OpIte, W: a.W, A: []*Term{cond, a, b}})
}

func sext64(v uint64, w int) int64 {
	if w >= 64 {
		return int64(v)
	}
	if v&(1<<uint(w-1)) != 0 {
		return int64(v | ^mask(w))
	}
	return int64(v)
}

func (c *TermCtx) Cmp(op Op, a, b *Term) *Term {
	if a.W != b.W || a.W <= 0 {
		panic(fmt.Sprintf("Cmp width mismatch %d vs %d", a.W, b.W))
	}
	if a.IsConst() && b.IsConst() {
		switch op {
		case OpUlt:
			return c.Bool(a.K < b.K)
		case OpUle:
			return c.Bool(a.K <= b.K)
		case OpSlt:
			return c.Bool(sext64(a.K, a.W) < sext64(b.K, b.W))
		case OpSle:
			return c.Bool(sext64(a.K, a.W) <= sext64(b.K, b.W))
		}
	}
	if a == b {
		return c.Bool(op == OpUle || op == OpSle)
	}
	// a few cheap range facts
	if op == OpUlt && b.IsConst() && b.K == 0 {
		return c.False
	}
	if op == OpUle && a.IsConst() && a.K == 0 {
		return c.True
	}
	if op == OpUle && b.IsConst() && b.K == mask(b.W) {
		return c.True
	}
	if (op == OpUlt || op == OpUle) && a.Op == OpZext && b.IsConst() {
		// zext(x) from narrower width: value < 2^inner
		iw := a.A[0].W
		if iw < 64 && b.K >= (uint64(1)<<uint(iw)) {
			return c.True
		}
	}
	return c.mk(&Term{Op: op, W: 0, A: []*Term{a, b}})
}

func (c *TermCtx) Bin(op Op, a, b *Term) *Term {
	if a.W != b.W || a.W <= 0 {
		panic(fmt.Sprintf("Bin %v width mismatch %d vs %d", opNames[op], a.W, b.W))
	}
	w := a.W
	m := mask(w)
	if a.IsConst() && b.IsConst() {
		x, y := a.K, b.K
		var r uint64
		switch op {
		case OpAdd:
			r = x + y
		case OpSub:
			r = x - y
		case OpMul:
			r = x * y
		case OpUdiv:
			if y == 0 {
				r = m
			} else {
				r = x / y
			}
		case OpUrem:
			if y == 0 {
				r = x
			} else {
				r = x % y
			}
		case OpSdiv:
			sx, sy := sext64(x, w), sext64(y, w)
			if sy == 0 {
				if sx < 0 {
					r = 1
				} else {
					r = m
				}
			} else if sy == -1 {
				r = uint64(-sx)
			} else {
				r = uint64(sx / sy)
			}
		case OpSrem:
			sx, sy := sext64(x, w), sext64(y, w)
			if sy == 0 {
				r = x
			} else if sy == -1 {
				r = 0
			} else {
				r = uint64(sx % sy)
			}
		case OpBvAnd:
			r = x & y
		case OpBvOr:
			r = x | y
		case OpBvXor:
			r = x ^ y
		case OpShl:
			if y >= uint64(w) {
				r = 0
			} else {
				r = x << y
			}
		case OpLshr:
			if y >= uint64(w) {
				r = 0
			} else {
				r = x >> y
			}
		case OpAshr:
			sx := sext64(x, w)
			if y >= uint64(w) {
				if sx < 0 {
					r = m
				} else {
					r = 0
				}
			} else {
				r = uint64(sx >> y)
			}
		default:
			panic("bad binop")
		}
		return c.BV(w, r)
	}
	// identities
	switch op {
	case OpAdd:
		if a.IsConst() && a.K == 0 {
			return b
		}
		if b.IsConst() && b.K == 0 {
			return a
		}
	case OpSub:
		if b.IsConst() && b.K == 0 {
			return a
		}
		if a == b {
			return c.BV(w, 0)
		}
	case OpMul:
		if a.IsConst() && a.K == 1 {
			return b
		}
		if b.IsConst() && b.K == 1 {
			return a
		}
		if (a.IsConst() && a.K == 0) || (b.IsConst() && b.K == 0) {
			return c.BV(w, 0)
		}
	case OpBvAnd:
		if a.IsConst() && a.K == 0 || b.IsConst() && b.K == 0 {
			return c.BV(w, 0)
		}
		if a.IsConst() && a.K == m {
			return b
		}
		if b.IsConst() && b.K == m {
			return a
		}
		if a == b {
			return a
		}
	case OpBvOr:
		if a.IsConst() && a.K == 0 {
			return b
		}
		if b.IsConst() && b.K == 0 {
			return a
		}
		if a == b {
			return a
		}
	case OpBvXor:
		if a.IsConst() && a.K == 0 {
			return b
		}
		if b.IsConst() && b.K == 0 {
			return a
		}
		if a == b {
			return c.BV(w, 0)
		}
	case OpShl, OpLshr, OpAshr:
		if b.IsConst() && b.K == 0 {
			return a
		}
		if b.IsConst() && b.K >= uint64(w) && op != OpAshr {
			return c.BV(w, 0)
		}
		if op == OpLshr && b.IsConst() && a.Op == OpZext {
			// (zext x) >> k where k >= inner width  => 0
			if b.K >= uint64(a.A[0].W) {
				return c.BV(w, 0)
			}
		}
	}
	// commutative ops: canonical order
	switch op {
	case OpAdd, OpMul, OpBvAnd, OpBvOr, OpBvXor:
		if a.id > b.id {
			a, b = b, a
		}
	}
	return c.mk(&Term{Op: op, W: w, A: []*Term{a, b}})
}

func (c *TermCtx) BvNot(a *Term) *Term {
	if a.IsConst() {
		return c.BV(a.W, ^a.K)
	}
	if a.Op == OpBvNot {
		return a.A[0]
	}
	return c.mk(&Term{Op: OpBvNot, W: a.W, A: []*Term{a}})
}

func (c *TermCtx) Neg(a *Term) *Term {
	if a.IsConst() {
		return c.BV(a.W, -a.K)
	}
	return c.mk(&Term{Op: OpNeg, W: a.W, A: []*Term{a}})
}

func (c *TermCtx) Extract(a *Term, hi, lo int) *Term {
	if hi < lo || hi >= a.W || lo < 0 {
		panic(fmt.Sprintf("bad extract [%d:%d] of width %d", hi, lo, a.W))
	}
	w := hi - lo + 1
	if w == a.W {
		return a
	}
	if a.IsConst() {
		return c.BV(w, a.K>>uint(lo))
	}
	switch a.Op {
	case OpZext:
		in := a.A[0]
		if hi < in.W {
			return c.Extract(in, hi, lo)
		}
		if lo >= in.W {
			return c.BV(w, 0)
		}
	case OpSext:
		in := a.A[0]
		if hi < in.W {
			return c.Extract(in, hi, lo)
		}
	case OpExtract:
		ilo := int(a.K & 0xff)
		return c.Extract(a.A[0], hi+ilo, lo+ilo)
	case OpConcat:
		lowW := a.A[1].W
		if hi < lowW {
			return c.Extract(a.A[1], hi, lo)
		}
		if lo >= lowW {
			return c.Extract(a.A[0], hi-lowW, lo-lowW)
		}
	}
	return c.mk(&Term{Op: OpExtract, W: w, A: []*Term{a}, K: uint64(hi)<<8 | uint64(lo)})
}

func (c *TermCtx) Zext(a *Term, w int) *Term {
	if w == a.W {
		return a
	}
	if w < a.W {
		return c.Extract(a, w-1, 0)
	}
	if a.IsConst() {
		return c.BV(w, a.K)
	}
	if a.Op == OpZext {
		return c.Zext(a.A[0], w)
	}
	return c.mk(&Term{Op: OpZext, W: w, A: []*Term{a}})
}

func (c *TermCtx) Sext(a *Term, w int) *Term {
	if w == a.W {
		return a
	}
	if w < a.W {
		return c.Extract(a, w-1, 0)
	}
	if a.IsConst() {
		return c.BV(w, uint64(sext64(a.K, a.W)))
	}
	return c.mk(&Term{Op: OpSext, W: w, A: []*Term{a}})
}

func (c *TermCtx) Concat(hi, lo *Term) *Term {
	w := hi.W + lo.W
	if w > 64 {
		panic("concat too wide")
	}
	if hi.IsConst() && lo.IsConst() {
		return c.BV(w, hi.K<<uint(lo.W)|lo.K)
	}
	return c.mk(&Term{Op: OpConcat, W: w, A: []*Term{hi, lo}})
}

// Arrays (BV64 -> BV8)
func (c *TermCtx) ArrayVar(name string) *Term { return c.mk(&Term{Op: OpVar, W: -1, Name: name}) }
func (c *TermCtx) FreshArray(prefix string) *Term {
	c.nvars++
	return c.ArrayVar(fmt.Sprintf("%s!%d", prefix, c.nvars))
}
func (c *TermCtx) Select(arr, idx *Term) *Term {
	// read-over-write with syntactically equal / constant-distinct indices
	for arr.Op == OpStore || arr.Op == OpConstArr {
		if arr.Op == OpConstArr {
			return c.BV(8, arr.K)
		}
		si := arr.A[1]
		if si == idx {
			return arr.A[2]
		}
		if si.IsConst() && idx.IsConst() && si.K != idx.K {
			arr = arr.A[0]
			continue
		}
		break
	}
	return c.mk(&Term{Op: OpSelect, W: 8, A: []*Term{arr, idx}})
}
func (c *TermCtx) Store(arr, idx, v *Term) *Term {
	return c.mk(&Term{Op: OpStore, W: -1, A: []*Term{arr, idx, v}})
}

// ---------- printing ----------

func sortOf(w int) string {
	switch {
	case w == 0:
		return "Bool"
	case w == -1:
		return "(Array (_ BitVec 64) (_ BitVec 8))"
	}
	return fmt.Sprintf("(_ BitVec %d)", w)
}

func quoteSym(s string) string { return "|" + s + "|" }

func constStr(t *Term) string {
	if t.W == 0 {
		if t.K == 1 {
			return "true"
		}
		return "false"
	}
	if t.W%4 == 0 {
		return fmt.Sprintf("#x%0*x", t.W/4, t.K)
	}
	return fmt.Sprintf("#b%0*b", t.W, t.K)
}

// String renders a term as a tree (debugging / small terms only).
func (t *Term) String() string {
	var sb strings.Builder
	t.write(&sb, func(a *Term) (string, bool) { return "", false }, 0)
	return sb.String()
}

func (t *Term) write(sb *strings.Builder, named func(*Term) (string, bool), depth int) {
	if n, ok := named(t); ok && depth > 0 {
		sb.WriteString(n)
		return
	}
	switch t.Op {
	case OpConst:
		sb.WriteString(constStr(t))
	case OpVar:
		sb.WriteString(quoteSym(t.Name))
	case OpConstArr:
		fmt.Fprintf(sb, "((as const (Array (_ BitVec 64) (_ BitVec 8))) #x%02x)", t.K)
	case OpExtract:
		fmt.Fprintf(sb, "((_ extract %d %d) ", t.K>>8, t.K&0xff)
		t.A[0].write(sb, named, depth+1)
		sb.WriteByte(')')
	case OpZext:
		fmt.Fprintf(sb, "((_ zero_extend %d) ", t.W-t.A[0].W)
		t.A[0].write(sb, named, depth+1)
		sb.WriteByte(')')
	case OpSext:
		fmt.Fprintf(sb, "((_ sign_extend %d) ", t.W-t.A[0].W)
		t.A[0].write(sb, named, depth+1)
		sb.WriteByte(')')
	default:
		sb.WriteByte('(')
		sb.WriteString(opNames[t.Op])
		for _, a := range t.A {
			sb.WriteByte(' ')
			a.write(sb, named, depth+1)
		}
		sb.WriteByte(')')
	}
}

// Vars collects the variables below t.
func (t *Term) Vars(seen map[*Term]bool, out *[]*Term) {
	if seen[t] {
		return
	}
	seen[t] = true
	if t.Op == OpVar {
		*out = append(*out, t)
	}
	for _, a := range t.A {
		a.Vars(seen, out)
	}
}

// Size returns the DAG size of t.
func (t *Term) Size() int {
	seen := map[*Term]bool{}
	var rec func(*Term)
	rec = func(x *Term) {
		if seen[x] {
			return
		}
		seen[x] = true
		for _, a := range x.A {
			rec(a)
		}
	}
	rec(t)
	return len(seen)
}

// Eval evaluates t under a model (vars missing from the model are 0).
func (c *TermCtx) Eval(t *Term, model map[string]uint64, memo map[*Term]uint64) uint64 {
	if v, ok := memo[t]; ok {
		return v
	}
	var r uint64
	ev := func(i int) uint64 { return c.Eval(t.A[i], model, memo) }
	switch t.Op {
	case OpConst:
		r = t.K
	case OpVar:
		r = model[t.Name] & mask64(t.W)
	case OpNot:
		r = 1 - ev(0)
	case OpAnd:
		r = ev(0) & ev(1)
	case OpOr:
		r = ev(0) | ev(1)
	case OpEq:
		if ev(0) == ev(1) {
			r = 1
		}
	case OpIte:
		if ev(0) == 1 {
			r = ev(1)
		} else {
			r = ev(2)
		}
	case OpUlt, OpUle, OpSlt, OpSle:
		x := c.BV(t.A[0].W, ev(0))
		y := c.BV(t.A[1].W, ev(1))
		r = c.Cmp(t.Op, x, y).K
	case OpBvNot:
		r = ^ev(0) & mask(t.W)
	case OpNeg:
		r = (-ev(0)) & mask(t.W)
	case OpExtract:
		r = (ev(0) >> (t.K & 0xff)) & mask(t.W)
	case OpZext:
		r = ev(0)
	case OpSext:
		r = uint64(sext64(ev(0), t.A[0].W)) & mask(t.W)
	case OpConcat:
		r = ev(0)<<uint(t.A[1].W) | ev(1)
	case OpSelect, OpStore:
		panic("Eval: arrays unsupported")
	default:
		x := c.BV(t.W, ev(0))
		y := c.BV(t.W, ev(1))
		r = c.Bin(t.Op, x, y).K
	}
	memo[t] = r
	return r
}

func mask64(w int) uint64 {
	if w <= 0 {
		return 1
	}
	return mask(w)
}

var _ = bits.Len
