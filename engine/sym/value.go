package sym

import (
	"fmt"
	"go/types"
	"sort"
	"strings"

	"golang.org/x/tools/go/ssa"
)

// Value is a dynamic value of the interpreted program:
//
//	*Term            bool and every integer kind (symbolic or constant)
//	float64          floats (concrete only)
//	string / *SymStr strings (concrete / concrete length with symbolic bytes)
//	*Value           pointers (nil pointer = (*Value)(nil))
//	Struct, Array    aggregates (value semantics: copied on load/store)
//	Slice            []Value sharing its backing array like a Go slice
//	*SymSlice        byte slice with symbolic offset/length/capacity
//	*Map, *Chan      reference types (nil = typed nil pointer)
//	Iface            interface value (T == nil: nil interface)
//	*Closure, *ssa.Function, *ssa.Builtin   function values
//	Tuple            multiple results
//	UnsafePtr        unsafe.Pointer wrapper
type Value interface{}

type Struct []Value
type Array []Value
type Tuple []Value
type Slice []Value

type UnsafePtr struct{ P Value }

type SymStr struct{ B []*Term }

type Iface struct {
	T types.Type
	V Value
}

type Closure struct {
	Fn  *ssa.Function
	Env []Value
}

type mapEnt struct {
	k, v Value
	dead bool
}

type Map struct {
	ID   int
	ent  []*mapEnt
	conc map[string]*mapEnt
}

type Chan struct {
	ID     int
	Buf    []Value
	Cap    int
	Closed bool
	Elem   types.Type
}

// SymSlice is a byte slice whose offset, length and capacity are terms.
// Its content lives in a shared SymMem.
type SymSlice struct {
	Mem *SymMem
	Off *Term // 64-bit
	Len *Term // 64-bit
	Cap *Term // 64-bit
}

type SymMem struct {
	ID  int
	Arr *Term // Array(BV64->BV8)
}

// ---------- zero values ----------

func bvWidth(b *types.Basic) int {
	switch b.Kind() {
	case types.Int8, types.Uint8:
		return 8
	case types.Int16, types.Uint16:
		return 16
	case types.Int32, types.Uint32:
		return 32
	case types.Int, types.Uint, types.Int64, types.Uint64, types.Uintptr, types.UntypedInt, types.UntypedRune:
		return 64
	}
	return 0
}

func isSigned(t types.Type) bool {
	b, ok := t.Underlying().(*types.Basic)
	if !ok {
		return false
	}
	switch b.Kind() {
	case types.Int, types.Int8, types.Int16, types.Int32, types.Int64, types.UntypedInt, types.UntypedRune:
		return true
	}
	return false
}

// widthOf returns the BV width of an integer type (0 if not an integer).
func widthOf(t types.Type) int {
	if b, ok := t.Underlying().(*types.Basic); ok {
		return bvWidth(b)
	}
	return 0
}

func (in *Interp) zero(t types.Type) Value {
	switch t := t.(type) {
	case *types.Basic:
		if t.Kind() == types.Bool || t.Kind() == types.UntypedBool {
			return in.tc.False
		}
		if w := bvWidth(t); w > 0 {
			return in.tc.BV(w, 0)
		}
		switch t.Kind() {
		case types.Float32, types.Float64, types.UntypedFloat:
			return float64(0)
		case types.String, types.UntypedString:
			return ""
		case types.UnsafePointer:
			return UnsafePtr{}
		case types.UntypedNil:
			return nil
		}
		panic(engineErr{fmt.Sprintf("zero: unsupported basic %v", t)})
	case *types.Pointer:
		return (*Value)(nil)
	case *types.Slice:
		return Slice(nil)
	case *types.Map:
		return (*Map)(nil)
	case *types.Chan:
		return (*Chan)(nil)
	case *types.Signature:
		return (*Closure)(nil)
	case *types.Interface:
		return Iface{}
	case *types.Struct:
		s := make(Struct, t.NumFields())
		for i := range s {
			s[i] = in.zero(t.Field(i).Type())
		}
		return s
	case *types.Array:
		n := int(t.Len())
		a := make(Array, n)
		if n > 0 {
			z := in.zero(t.Elem())
			switch z.(type) {
			case Struct, Array:
				a[0] = z
				for i := 1; i < n; i++ {
					a[i] = copyVal(z)
				}
			default:
				for i := range a {
					a[i] = z
				}
			}
		}
		return a
	case *types.Named:
		return in.zero(t.Underlying())
	case *types.Alias:
		return in.zero(types.Unalias(t))
	case *types.Tuple:
		if t.Len() == 1 {
			return in.zero(t.At(0).Type())
		}
		tu := make(Tuple, t.Len())
		for i := range tu {
			tu[i] = in.zero(t.At(i).Type())
		}
		return tu
	}
	panic(engineErr{fmt.Sprintf("zero: unsupported type %T %v", t, t)})
}

// copyVal copies aggregates (value semantics).
func copyVal(v Value) Value {
	switch v := v.(type) {
	case Struct:
		c := make(Struct, len(v))
		for i, x := range v {
			c[i] = copyVal(x)
		}
		return c
	case Array:
		c := make(Array, len(v))
		for i, x := range v {
			c[i] = copyVal(x)
		}
		return c
	case Tuple:
		panic("copyVal of tuple")
	}
	return v
}

// ---------- strings ----------

func (in *Interp) strBytes(v Value) []*Term {
	switch s := v.(type) {
	case string:
		b := make([]*Term, len(s))
		for i := 0; i < len(s); i++ {
			b[i] = in.tc.BV(8, uint64(s[i]))
		}
		return b
	case *SymStr:
		return s.B
	}
	panic(engineErr{fmt.Sprintf("strBytes: not a string: %T", v)})
}

func strLen(v Value) int {
	switch s := v.(type) {
	case string:
		return len(s)
	case *SymStr:
		return len(s.B)
	}
	panic(engineErr{fmt.Sprintf("strLen: not a string: %T", v)})
}

func mkStr(b []*Term) Value {
	for _, t := range b {
		if !t.IsConst() {
			return &SymStr{B: b}
		}
	}
	bs := make([]byte, len(b))
	for i, t := range b {
		bs[i] = byte(t.K)
	}
	return string(bs)
}

func (in *Interp) strEq(x, y Value) *Term {
	if xs, ok := x.(string); ok {
		if ys, ok := y.(string); ok {
			return in.tc.Bool(xs == ys)
		}
	}
	if strLen(x) != strLen(y) {
		return in.tc.False
	}
	xb, yb := in.strBytes(x), in.strBytes(y)
	r := in.tc.True
	for i := range xb {
		r = in.tc.And(r, in.tc.Eq(xb[i], yb[i]))
	}
	return r
}

// strLess computes x < y lexicographically.
func (in *Interp) strLess(x, y Value) *Term {
	if xs, ok := x.(string); ok {
		if ys, ok := y.(string); ok {
			return in.tc.Bool(xs < ys)
		}
	}
	xb, yb := in.strBytes(x), in.strBytes(y)
	n := len(xb)
	if len(yb) < n {
		n = len(yb)
	}
	// result for the tail: len(x) < len(y)
	r := in.tc.Bool(len(xb) < len(yb))
	for i := n - 1; i >= 0; i-- {
		lt := in.tc.Cmp(OpUlt, xb[i], yb[i])
		eq := in.tc.Eq(xb[i], yb[i])
		r = in.tc.Or(lt, in.tc.And(eq, r))
	}
	return r
}

// ---------- equality ----------

func (in *Interp) equals(x, y Value) *Term {
	tc := in.tc
	switch x := x.(type) {
	case nil:
		return tc.Bool(isNilValue(y))
	case *Term:
		switch y := y.(type) {
		case *Term:
			return tc.Eq(x, y)
		}
	case float64:
		if y, ok := y.(float64); ok {
			return tc.Bool(x == y)
		}
	case string, *SymStr:
		switch y.(type) {
		case string, *SymStr:
			return in.strEq(x, y)
		}
	case *Value:
		switch y := y.(type) {
		case *Value:
			return tc.Bool(x == y)
		case nil:
			return tc.Bool(x == nil)
		}
	case *Map:
		switch y := y.(type) {
		case *Map:
			return tc.Bool(x == y)
		case nil:
			return tc.Bool(x == nil)
		}
	case *Chan:
		switch y := y.(type) {
		case *Chan:
			return tc.Bool(x == y)
		case nil:
			return tc.Bool(x == nil)
		}
	case Slice:
		// only comparison with nil is legal
		if isNilValue(y) {
			return tc.Bool(x == nil)
		}
	case *SymSlice:
		if isNilValue(y) {
			return tc.Bool(x == nil)
		}
	case *Closure, *ssa.Function, *ssa.Builtin:
		if isNilValue(y) {
			return tc.Bool(isNilValue(x))
		}
		if isNilValue(x) {
			return tc.Bool(isNilValue(y))
		}
		return tc.Bool(x == y)
	case UnsafePtr:
		if y, ok := y.(UnsafePtr); ok {
			return tc.Bool(x.P == y.P)
		}
		if y == nil {
			return tc.Bool(x.P == nil)
		}
	case Iface:
		switch y := y.(type) {
		case Iface:
			if x.T == nil || y.T == nil {
				return tc.Bool(x.T == nil && y.T == nil)
			}
			if !types.Identical(x.T, y.T) {
				return tc.False
			}
			if !types.Comparable(x.T) {
				panic(targetPanic{Iface{T: types.Typ[types.String], V: "runtime error: comparing uncomparable type " + x.T.String()}})
			}
			return in.equals(x.V, y.V)
		case nil:
			return tc.Bool(x.T == nil)
		}
	case Struct:
		if y, ok := y.(Struct); ok {
			r := tc.True
			for i := range x {
				r = tc.And(r, in.equals(x[i], y[i]))
			}
			return r
		}
	case Array:
		if y, ok := y.(Array); ok {
			r := tc.True
			for i := range x {
				r = tc.And(r, in.equals(x[i], y[i]))
			}
			return r
		}
	}
	panic(engineErr{fmt.Sprintf("equals: unsupported %T vs %T", x, y)})
}

func isNilValue(v Value) bool {
	switch v := v.(type) {
	case nil:
		return true
	case *Value:
		return v == nil
	case *Map:
		return v == nil
	case *Chan:
		return v == nil
	case Slice:
		return v == nil
	case *SymSlice:
		return v == nil
	case *Closure:
		return v == nil
	case *ssa.Function:
		return v == nil
	case Iface:
		return v.T == nil
	case UnsafePtr:
		return v.P == nil
	}
	return false
}

// ---------- maps ----------

// concKey returns a canonical string for fully concrete comparable values.
func concKey(v Value) (string, bool) {
	switch v := v.(type) {
	case *Term:
		if v.IsConst() {
			return fmt.Sprintf("i%d:%x", v.W, v.K), true
		}
		return "", false
	case string:
		return "s" + v, true
	case *SymStr:
		return "", false
	case *Value:
		return fmt.Sprintf("p%p", v), true
	case *Map:
		return fmt.Sprintf("m%p", v), true
	case *Chan:
		return fmt.Sprintf("c%p", v), true
	case float64:
		return fmt.Sprintf("f%v", v), true
	case Iface:
		if v.T == nil {
			return "nil", true
		}
		k, ok := concKey(v.V)
		if !ok {
			return "", false
		}
		return "I" + v.T.String() + "/" + k, true
	case Struct:
		var sb strings.Builder
		sb.WriteString("S{")
		for _, f := range v {
			k, ok := concKey(f)
			if !ok {
				return "", false
			}
			sb.WriteString(k)
			sb.WriteByte(';')
		}
		sb.WriteByte('}')
		return sb.String(), true
	case Array:
		var sb strings.Builder
		sb.WriteString("A[")
		for _, f := range v {
			k, ok := concKey(f)
			if !ok {
				return "", false
			}
			sb.WriteString(k)
			sb.WriteByte(';')
		}
		sb.WriteByte(']')
		return sb.String(), true
	case UnsafePtr:
		return fmt.Sprintf("u%v", v.P), true
	}
	return "", false
}

func (in *Interp) newMap() *Map {
	in.nextObjID++
	return &Map{ID: in.nextObjID, conc: map[string]*mapEnt{}}
}

// find locates the entry for key; may fork on symbolic key equality.
func (in *Interp) mapFind(m *Map, key Value) *mapEnt {
	if m == nil {
		return nil
	}
	ck, isConc := concKey(key)
	if isConc {
		if e, ok := m.conc[ck]; ok {
			return e
		}
	}
	for _, e := range m.ent {
		if e.dead {
			continue
		}
		if isConc {
			if _, ec := concKey(e.k); ec {
				continue // concrete vs concrete mismatch (index would have hit)
			}
		}
		eq := in.equals(key, e.k)
		if eq.IsConst() {
			if eq.IsTrue() {
				return e
			}
			continue
		}
		if in.branch(eq) {
			return e
		}
	}
	return nil
}

func (in *Interp) mapLookup(m *Map, key Value) (Value, bool) {
	e := in.mapFind(m, key)
	if e == nil {
		return nil, false
	}
	return e.v, true
}

func (in *Interp) mapInsert(m *Map, key, val Value) {
	if m == nil {
		panic(targetPanic{Iface{T: types.Typ[types.String], V: "assignment to entry in nil map"}})
	}
	e := in.mapFind(m, key)
	if e != nil {
		e.v = val
		return
	}
	e = &mapEnt{k: key, v: val}
	m.ent = append(m.ent, e)
	if ck, ok := concKey(key); ok {
		m.conc[ck] = e
	}
}

func (in *Interp) mapDelete(m *Map, key Value) {
	e := in.mapFind(m, key)
	if e == nil {
		return
	}
	e.dead = true
	if ck, ok := concKey(e.k); ok {
		delete(m.conc, ck)
	}
	for i, x := range m.ent {
		if x == e {
			m.ent = append(m.ent[:i:i], m.ent[i+1:]...)
			break
		}
	}
}

func (m *Map) Len() int {
	if m == nil {
		return 0
	}
	return len(m.ent)
}

// Entries returns live entries in insertion order.
func (m *Map) Entries() []*mapEnt {
	if m == nil {
		return nil
	}
	return append([]*mapEnt(nil), m.ent...)
}

// ---------- iterators ----------

type iter interface {
	next(in *Interp) Tuple
}

type mapIter struct {
	ents []*mapEnt
	i    int
}

func (it *mapIter) next(in *Interp) Tuple {
	for it.i < len(it.ents) {
		e := it.ents[it.i]
		it.i++
		if e.dead {
			continue
		}
		return Tuple{in.tc.True, e.k, e.v}
	}
	return Tuple{in.tc.False, nil, nil}
}

type strIter struct {
	b []*Term
	i int
}

func (it *strIter) next(in *Interp) Tuple {
	if it.i >= len(it.b) {
		return Tuple{in.tc.False, in.tc.BV(64, 0), in.tc.BV(32, 0)}
	}
	c := it.b[it.i]
	if !c.IsConst() || c.K >= 0x80 {
		// Only ASCII concrete iteration is supported precisely; for symbolic
		// bytes assume single-byte runes and constrain via fork.
		if !c.IsConst() {
			if !in.branch(in.tc.Cmp(OpUlt, c, in.tc.BV(8, 0x80))) {
				panic(engineErr{"range over string with non-ASCII symbolic byte"})
			}
		} else {
			panic(engineErr{"range over string with non-ASCII byte"})
		}
	}
	idx := it.i
	it.i++
	return Tuple{in.tc.True, in.tc.BV(64, uint64(idx)), in.tc.Zext(c, 32)}
}

// ---------- formatting ----------

func (in *Interp) valString(v Value) string {
	return in.valStringDepth(v, 0)
}

func (in *Interp) valStringDepth(v Value, d int) string {
	if d > 3 {
		return "…"
	}
	switch v := v.(type) {
	case nil:
		return "nil"
	case *Term:
		if v.IsConst() {
			if v.W == 0 {
				return fmt.Sprint(v.K == 1)
			}
			return fmt.Sprint(v.K)
		}
		s := v.String()
		if len(s) > 60 {
			s = s[:60] + "…"
		}
		return s
	case string:
		return fmt.Sprintf("%q", v)
	case *SymStr:
		return fmt.Sprintf("symstr[%d]", len(v.B))
	case *Value:
		if v == nil {
			return "nil"
		}
		return fmt.Sprintf("&%s", in.valStringDepth(*v, d+1))
	case Struct:
		parts := []string{}
		for _, f := range v {
			parts = append(parts, in.valStringDepth(f, d+1))
		}
		return "{" + strings.Join(parts, " ") + "}"
	case Array:
		return fmt.Sprintf("array[%d]", len(v))
	case Slice:
		return fmt.Sprintf("slice[%d]", len(v))
	case Iface:
		if v.T == nil {
			return "nil"
		}
		return fmt.Sprintf("%s(%s)", v.T, in.valStringDepth(v.V, d+1))
	case *Map:
		return fmt.Sprintf("map[%d]", v.Len())
	case *Closure:
		if v == nil {
			return "nil"
		}
		return "closure " + v.Fn.String()
	}
	return fmt.Sprintf("%T", v)
}

func sortedKeys(m map[string]int) []string {
	ks := make([]string, 0, len(m))
	for k := range m {
		ks = append(ks, k)
	}
	sort.Strings(ks)
	return ks
}
