package composefs

import (
	"github.com/hugelgupf/p9/fsimpl/staticfs"
	"github.com/hugelgupf/p9/p9"
)

// C19 (composefs, incl. a nested mount): paging and QID agreement.

func VerifH_C19_ComposePaging() {
	n := verifChoice(verifParam("N", 3) + 1)
	names := []string{"m2", "f1", "zz", "aa", "k"}
	var opts []Opt
	for i, name := range names[:n] {
		switch i % 3 {
		case 0:
			sub, err := staticfs.New(staticfs.WithFile("inner", "x"))
			verifAssume(err == nil)
			opts = append(opts, WithMount(name, sub))
		case 1:
			opts = append(opts, WithFile(name, staticfs.ReadOnlyFile("y")))
		default:
			opts = append(opts, WithDir(name, WithFile("deep", staticfs.ReadOnlyFile("z"))))
		}
	}
	fs, err := New(opts...)
	verifAssume(err == nil)
	root, err := fs.Attach()
	verifAssume(err == nil)
	var all []p9.Dirent
	offset := uint64(0)
	for iter := 0; iter <= n+1; iter++ {
		count := verifNondetU32()
		verifAssume(count >= 27 && count <= 1<<12)
		ents, err := root.Readdir(offset, count)
		verifAssert(err == nil, "Readdir succeeds")
		if err != nil {
			return
		}
		total, k := 0, 0
		for _, e := range ents {
			sz := 24 + len(e.Name)
			if total+sz > int(count) {
				break
			}
			total += sz
			k++
		}
		if k == 0 {
			break
		}
		all = append(all, ents[:k]...)
		offset = ents[k-1].Offset
	}
	verifReach("listed")
	seen := map[string]int{}
	for _, e := range all {
		seen[e.Name]++
	}
	for _, name := range names[:n] {
		verifAssert(seen[name] == 1, "every entry is listed exactly once whatever byte counts are requested")
	}
	verifAssert(len(seen) == n, "nothing else is listed")
	for _, e := range all {
		qs, f, err := root.Walk([]string{e.Name})
		verifAssert(err == nil && len(qs) == 1, "listed entry can be walked to")
		if err != nil {
			continue
		}
		q, _, attr, err := f.GetAttr(p9.AttrMaskAll)
		verifAssert(err == nil, "GetAttr on the walked file")
		verifAssert(e.QID.Path == qs[0].Path && e.QID.Path == q.Path, "listed QID path equals what Walk and GetAttr report")
		verifAssert(e.Type == qs[0].Type && e.Type == attr.Mode.QIDType(), "listed type equals the walked QID type and the mode's type")
	}
	for i := range all {
		for j := 0; j < i; j++ {
			verifAssert(all[i].QID.Path != all[j].QID.Path, "distinct entries have distinct QID paths")
		}
	}
}
