package localfs

import (
	"os"
	"syscall"
	"time"
)

// C19 (localfs): paging through a directory; C20: QID identity.

var verifNames = []string{"a", "bb", "ccc", "d", "ee", "fff", "g"}

// VerifH_C19_LocalPaging: list a directory of 0..N entries by repeated
// Readdir calls, each starting at the Offset of the last entry received, with
// an arbitrary byte count per call (at least one entry fits) and the server's
// truncation to whole entries within the count.
func VerifH_C19_LocalPaging() {
	n := verifChoice(verifParam("N", 4) + 1)
	l := verifOpenDir(verifNames[:n])
	seen := map[string]int{}
	offset := uint64(0)
	pages := 0
	for iter := 0; iter <= n+1; iter++ {
		count := verifNondetU32()
		verifAssume(count >= 27 && count <= 1<<12)
		ents, err := l.Readdir(offset, count)
		verifAssert(err == nil, "Readdir succeeds")
		if err != nil {
			return
		}
		// the server puts only the whole entries that fit in count bytes on the wire
		total, k := 0, 0
		for _, e := range ents {
			sz := 24 + len(e.Name)
			if total+sz > int(count) {
				break
			}
			total += sz
			k++
		}
		if k == 0 {
			break
		}
		pages++
		for _, e := range ents[:k] {
			seen[e.Name]++
		}
		offset = ents[k-1].Offset
	}
	verifReach("listed")
	if pages > 1 {
		verifReach("several-pages")
	}
	for _, name := range verifNames[:n] {
		verifAssert(seen[name] == 1, "every entry is listed exactly once whatever byte counts are requested")
	}
	verifAssert(len(seen) == n, "nothing else is listed")
}

// verifInfo is a FileInfo with an arbitrary (dev, ino, mode).
type verifInfo struct {
	st   syscall.Stat_t
	mode os.FileMode
}

func (i *verifInfo) Name() string       { return "x" }
func (i *verifInfo) Size() int64        { return 0 }
func (i *verifInfo) Mode() os.FileMode  { return i.mode }
func (i *verifInfo) ModTime() time.Time { return time.Time{} }
func (i *verifInfo) IsDir() bool        { return i.mode.IsDir() }
func (i *verifInfo) Sys() interface{}   { return &i.st }

// VerifH_C20_EncodeLikely: the compact encoding is injective and never sets bit 63.
func VerifH_C20_EncodeLikely() {
	d1, i1, d2, i2 := verifNondetU64(), verifNondetU64(), verifNondetU64(), verifNondetU64()
	q1, ok1 := encodeLikely(d1, i1)
	q2, ok2 := encodeLikely(d2, i2)
	if ok1 {
		verifReach("likely")
		verifAssert(q1>>63 == 0, "compact QID paths keep bit 63 clear")
	} else {
		verifReach("unlikely")
	}
	if ok1 && ok2 && q1 == q2 {
		verifAssert(d1 == d2 && i1 == i2, "distinct (device, inode) pairs get distinct compact QID paths")
	}
}

// VerifH_C20_LocalToQid: every (device, inode) pair - also outside the compact
// encoding - maps to one stable path; distinct pairs to distinct paths.
func VerifH_C20_LocalToQid() {
	a := &verifInfo{}
	a.st.Dev, a.st.Ino = verifNondetU64(), verifNondetU64()
	b := &verifInfo{}
	b.st.Dev, b.st.Ino = verifNondetU64(), verifNondetU64()
	qa1, err := localToQid("p", a)
	verifAssert(err == nil, "localToQid succeeds")
	qb, _ := localToQid("q", b)
	qa2, _ := localToQid("p", a)
	verifReach("mapped")
	_, likely := encodeLikely(a.st.Dev, a.st.Ino)
	if !likely {
		verifReach("outside-compact-encoding")
		verifAssert(qa1>>63 == 1, "pairs outside the compact encoding get paths with bit 63 set")
	}
	verifAssert(qa1 == qa2, "the same (device, inode) pair keeps one stable QID path")
	if a.st.Dev != b.st.Dev || a.st.Ino != b.st.Ino {
		verifAssert(qa1 != qb, "distinct (device, inode) pairs get distinct QID paths")
	} else {
		verifAssert(qa1 == qb, "equal pairs get equal paths")
	}
}
