package localfs

import (
	"io"
	"os"
	"path"
)

// Engine-only environment model of a directory (the native replay uses a real
// temporary directory instead, see c19_real_native.go).

//verif:intercept (*os.File).Readdirnames=verifModelReaddirnames
//verif:intercept (*os.File).Seek=verifModelSeek
//verif:intercept os.Lstat=verifModelLstat

var verifDir struct {
	names []string
	pos   int
	infos []*verifInfo
}

func verifOpenDir(names []string) *Local {
	verifDir.names = names
	verifDir.pos = 0
	verifDir.infos = nil
	for range names {
		i := &verifInfo{}
		i.st.Dev, i.st.Ino = verifNondetU64(), verifNondetU64()
		verifDir.infos = append(verifDir.infos, i)
	}
	return &Local{path: "/m", file: new(os.File)}
}

// Readdirnames(1) returns the next name or io.EOF (documented behaviour).
func verifModelReaddirnames(f *os.File, n int) ([]string, error) {
	if verifDir.pos >= len(verifDir.names) {
		return nil, io.EOF
	}
	verifDir.pos++
	return []string{verifDir.names[verifDir.pos-1]}, nil
}

// Seek(0, io.SeekStart) on a directory rewinds the listing (documented behaviour).
func verifModelSeek(f *os.File, off int64, whence int) (int64, error) {
	if off == 0 && whence == io.SeekStart {
		verifDir.pos = 0
	}
	return 0, nil
}

func verifModelLstat(name string) (os.FileInfo, error) {
	b := path.Base(name)
	for i, n := range verifDir.names {
		if n == b {
			return verifDir.infos[i], nil
		}
	}
	return nil, os.ErrNotExist
}
