package localfs

import (
	"os"
	"path/filepath"
)

// Native replay: a real temporary directory.
func verifOpenDir(names []string) *Local {
	dir, err := os.MkdirTemp("", "p9verif-dir-")
	if err != nil {
		panic(err)
	}
	for range names {
		// keep the tape aligned with the engine's model (dev, ino per entry)
		verifNondetU64()
		verifNondetU64()
	}
	for _, n := range names {
		if err := os.WriteFile(filepath.Join(dir, n), nil, 0o644); err != nil {
			panic(err)
		}
	}
	f, err := os.Open(dir)
	if err != nil {
		panic(err)
	}
	return &Local{path: dir, file: f}
}
