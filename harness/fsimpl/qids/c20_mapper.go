package qids

import "github.com/hugelgupf/p9/p9"

// C20: the QID mapper used by staticfs and composefs.

// VerifH_C20_MapperStep: inductive step from an arbitrary mapper state of 0..3
// entries satisfying the invariant (values pairwise distinct and <= the
// generator's counter): a known source path keeps its result, an unknown one
// gets a fresh result different from every existing one, the invariant holds
// afterwards.
func VerifH_C20_MapperStep() {
	g := &PathGenerator{uids: verifNondetU64()}
	verifAssume(g.uids < 1<<62)
	m := NewMapper(g)
	k := verifChoice(verifParam("K", 3) + 1)
	src := make([]uint64, k)
	val := make([]uint64, k)
	for i := 0; i < k; i++ {
		src[i], val[i] = verifNondetU64(), verifNondetU64()
		verifAssume(val[i] <= g.uids && val[i] >= 1)
		for j := 0; j < i; j++ {
			verifAssume(src[i] != src[j] && val[i] != val[j])
		}
		m.paths[src[i]] = val[i]
	}
	q := p9.QID{Type: p9.QIDType(verifNondetU8()), Version: verifNondetU32(), Path: verifNondetU64()}
	r1 := m.QIDFor(q)
	r2 := m.QIDFor(q)
	verifReach("mapped")
	verifAssert(r1 == r2, "the same source path keeps one result for good")
	verifAssert(r1.Type == q.Type && r1.Version == q.Version, "type and version pass through")
	known := false
	for i := 0; i < k; i++ {
		if src[i] == q.Path {
			known = true
			verifReach("known-source")
			verifAssert(r1.Path == val[i], "a known source path gets its recorded result")
		}
	}
	if !known {
		verifReach("fresh-source")
		for i := 0; i < k; i++ {
			verifAssert(r1.Path != val[i], "a new source path gets a result different from every existing one")
		}
	}
	q2 := p9.QID{Path: verifNondetU64()}
	r3 := m.QIDFor(q2)
	if q2.Path != q.Path {
		verifAssert(r3.Path != r1.Path, "distinct source paths get distinct results")
	}
	verifAssert(r1.Path <= g.uids && r3.Path <= g.uids && r1.Path >= 1, "results stay within the generator's range (invariant)")
}

// VerifH_C20_MapperConcurrent (schedule layer): two concurrent lookups on one
// Mapper, as composefs issues them from two read-class requests: no data race
// on the table, whatever the paths (fresh or known).
func VerifH_C20_MapperConcurrent() {
	sc := verifParam("scenario", 0)
	g := &PathGenerator{}
	m := NewMapper(g)
	m.QIDFor(p9.QID{Path: 100}) // one known path
	pa := []uint64{100, 200, 200}[sc%3]
	pb := []uint64{100, 100, 300}[sc%3]
	var ra, rb p9.QID
	verifThread("A", func() { ra = m.QIDFor(p9.QID{Path: pa}) })
	verifThread("B", func() { rb = m.QIDFor(p9.QID{Path: pb}) })
	_, _ = ra, rb
	verifReach("lookups-declared")
}
