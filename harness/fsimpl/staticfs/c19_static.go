package staticfs

import "github.com/hugelgupf/p9/p9"

// C19 (staticfs): paging with arbitrary byte counts and QID agreement.

var verifNames = []string{"bb", "a", "ccc", "ee", "d", "g", "fff"}

// verifPage lists dir by repeated Readdir calls (offset = Offset of the last
// entry received, count arbitrary but at least one entry, server truncation
// to whole entries within count) and returns what was listed.
func verifPage(dir p9.File, n int) []p9.Dirent {
	var all []p9.Dirent
	offset := uint64(0)
	for iter := 0; iter <= n+1; iter++ {
		count := verifNondetU32()
		verifAssume(count >= 27 && count <= 1<<12)
		ents, err := dir.Readdir(offset, count)
		verifAssert(err == nil, "Readdir succeeds")
		if err != nil {
			return all
		}
		total, k := 0, 0
		for _, e := range ents {
			sz := 24 + len(e.Name)
			if total+sz > int(count) {
				break
			}
			total += sz
			k++
		}
		if k == 0 {
			break
		}
		all = append(all, ents[:k]...)
		offset = ents[k-1].Offset
	}
	return all
}

func VerifH_C19_StaticPaging() {
	n := verifChoice(verifParam("N", 4) + 1)
	var opts []Option
	for _, name := range verifNames[:n] {
		opts = append(opts, WithFile(name, "content"))
	}
	att, err := New(opts...)
	verifAssume(err == nil)
	root, err := att.Attach()
	verifAssume(err == nil)
	all := verifPage(root, n)
	verifReach("listed")
	seen := map[string]int{}
	for _, e := range all {
		seen[e.Name]++
	}
	for _, name := range verifNames[:n] {
		verifAssert(seen[name] == 1, "every entry is listed exactly once whatever byte counts are requested")
	}
	verifAssert(len(seen) == n, "nothing else is listed")
	// QID agreement with Walk and GetAttr
	for _, e := range all {
		qs, f, err := root.Walk([]string{e.Name})
		verifAssert(err == nil && len(qs) == 1, "listed entry can be walked to")
		if err != nil {
			continue
		}
		q, _, attr, err := f.GetAttr(p9.AttrMaskAll)
		verifAssert(err == nil, "GetAttr on the walked file")
		verifAssert(e.QID == qs[0] && e.QID.Path == q.Path, "listed QID equals what Walk and GetAttr report")
		verifAssert(e.Type == e.QID.Type && e.Type == attr.Mode.QIDType(), "listed type equals the QID type and the mode's type")
	}
	if n > 1 {
		// QID paths identify files
		verifAssert(all[0].QID.Path != all[1].QID.Path, "distinct files have distinct QID paths")
	}
}
