package p9

import (
	"io"
	"os"
	"syscall"

	"fmt"

	"github.com/hugelgupf/p9/linux"
)

// ---- recording / faulting backend shared by C03, C04, C05, C08, C09, C15 ----

type verifCall struct {
	op    string
	node  int      // receiver id
	other int      // File argument id (0 = none)
	s     []string // string arguments (names in path-component positions first)
	u     []uint64 // scalar arguments
	b     []byte   // byte argument (WriteAt / SetXattr data)
	fault int      // 0 ok, 1 error returned, 2 panicked
	npath int      // how many leading entries of s are path components
}

type verifFS struct {
	log   []verifCall
	nodes []*verifNode

	faults   int  // 0: never fail; 1: any call may fail; 2: may fail or panic
	errAlpha int  // 0: plain errno; 1: full error alphabet (C03)
	fixedDir bool // every walked/created node reports a symbolic mode unless fixed
	lastErr  error
	nfaults  int
	maxFault int // at most this many injected faults per path (0 = unlimited)
	readData []byte
	dirents  Dirents
	xattr    []byte
	xattrs   []string

	// last successful results (for transparency checks)
	lastStat   FSStat
	lastQID    QID
	lastAttr   Attr
	lastValid  AttrMask
	lastU32    uint32
	lastInt    int
	linkTarget string
	lastExpect uint32
	faultClose bool     // Close may fail too (C05/C15); otherwise it never does
	failAll    bool     // every backend call fails (set per step by a harness)
	onEnter    func()   // called at the start of every File method (sequential mode)
	useWGAall  bool     // every node implements WalkGetAttr
	sched      bool     // emit be-enter/be-exit events (schedule layer)
	curReq     string   // tag of the request the running thread serves
	walkMode   FileMode // if non-zero, the mode reported for walked nodes
}

type verifNode struct {
	fs     *verifFS
	id     int
	mode   FileMode
	closed int
	uac    bool // used after close
	opens  int
	parent int
	name   string
	useWGA bool // WalkGetAttr implemented natively instead of ENOSYS
}

func (fs *verifFS) newNode(mode FileMode) *verifNode {
	if fs.sched {
		// nodes created by a thread are not registered in shared state
		return &verifNode{fs: fs, id: 1000, mode: mode}
	}
	n := &verifNode{fs: fs, id: len(fs.nodes) + 1, mode: mode}
	fs.nodes = append(fs.nodes, n)
	return n
}

func (fs *verifFS) node(id int) *verifNode {
	if id <= 0 || id > len(fs.nodes) {
		return nil
	}
	return fs.nodes[id-1]
}

// Attach implements Attacher.
func (fs *verifFS) Attach() (File, error) {
	fs.log = append(fs.log, verifCall{op: "Attach"})
	if err := fs.fault(); err != nil {
		return nil, err
	}
	return fs.newNode(ModeDirectory | 0755), nil
}

func verifErrno() uint32 {
	e := verifNondetU32()
	verifAssume(e >= 1 && e <= 133)
	return e
}

// fault decides nondeterministically whether this backend call fails, and how.
func (fs *verifFS) fault() error {
	if fs.failAll {
		// every backend call of this step fails (no choice point)
		e := linux.Errno(verifErrno())
		fs.lastErr = e
		return e
	}
	if fs.faults == 0 {
		return nil
	}
	if fs.maxFault > 0 && fs.nfaults >= fs.maxFault {
		return nil
	}
	k := verifChoice(fs.faults + 1)
	if k == 0 {
		return nil
	}
	fs.nfaults++
	last := &fs.log[len(fs.log)-1]
	if k == 2 {
		last.fault = 2
		panic("verif: backend panic")
	}
	last.fault = 1
	fs.lastErr = fs.anError()
	return fs.lastErr
}

// anError draws from the error alphabet of DESIGN.md Appendix C and records
// in fs.lastExpect the errno the client must see: the errno value found in the
// chain, else the errno conventionally denoted by the os.Err* sentinel, else EIO.
func (fs *verifFS) anError() error {
	if fs.errAlpha == 0 {
		e := verifErrno()
		fs.lastExpect = e
		return linux.Errno(e)
	}
	var base error
	switch verifChoice(7) {
	case 0:
		e := verifErrno()
		fs.lastExpect = e
		base = linux.Errno(e)
	case 1:
		e := verifErrno()
		fs.lastExpect = e
		base = syscall.Errno(e)
	case 2:
		fs.lastExpect = 2 // ENOENT
		base = os.ErrNotExist
	case 3:
		fs.lastExpect = 17 // EEXIST
		base = os.ErrExist
	case 4:
		fs.lastExpect = 13 // EACCES
		base = os.ErrPermission
	case 5:
		fs.lastExpect = 22 // EINVAL
		base = os.ErrInvalid
	default:
		fs.lastExpect = 5 // EIO
		base = verifErr("opaque backend error")
	}
	switch verifChoice(4) {
	case 0:
		return base
	case 1:
		return fmt.Errorf("wrapped: %w", base)
	case 2:
		return &os.PathError{Op: "op", Path: "p", Err: base}
	default:
		return fmt.Errorf("twice: %w", fmt.Errorf("once: %w", base))
	}
}

func (n *verifNode) rec(c verifCall) func() {
	c.node = n.id
	if !n.fs.sched {
		if n.fs.onEnter != nil {
			n.fs.onEnter()
		}
		if n.closed > 0 && c.op != "Close" {
			n.uac = true
		}
		n.fs.log = append(n.fs.log, c)
		return verifNop
	}
	// (schedule mode keeps no shared mutable bookkeeping in the backend)
	// schedule mode: backend calls are events (enter/exit) for the overlap queries
	class := verifClassOf(c.op)
	entry := ""
	if c.op == "UnlinkAt" && len(c.s) > 0 {
		entry = n.pathKey() + "/" + c.s[0]
	}
	op, pk, id, req := c.op, n.pathKey(), n.id, verifThreadName()
	if n.id == 1000 {
		// a File produced by the running request itself (Walk result not yet
		// bound to a fid): calls on it are told apart in violation signatures
		op += "@walked"
	}
	verifEvent("be-enter", op, class, pk, entry, id, req)
	return func() { verifEvent("be-exit", op, class, pk, entry, id, req) }
}

func verifNop() {}

// verifClassOf: concurrency class of each File method (comments of p9/file.go,
// restated in DESIGN.md Appendix B).
func verifClassOf(op string) string {
	switch op {
	case "Walk", "WalkGetAttr", "GetAttr", "Open", "ReadAt", "WriteAt", "FSync", "Readdir", "Readlink":
		return "read"
	case "SetAttr", "Create", "Mkdir", "Symlink", "Link", "Mknod", "UnlinkAt":
		return "write"
	case "RenameAt", "Renamed":
		return "global"
	}
	return "none"
}

// pathKey: the path the node currently denotes (clones share it).
func (n *verifNode) pathKey() string {
	if n.parent == 0 {
		return ""
	}
	p := n.fs.node(n.parent)
	if p == nil {
		return "?/" + n.name
	}
	return p.pathKey() + "/" + n.name
}

func verifQID() QID {
	return QID{Type: QIDType(verifNondetU8()), Version: verifNondetU32(), Path: verifNondetU64()}
}

func verifAttr() Attr {
	var a Attr
	verifHavoc(&a, 0, 0, 0)
	return a
}

func (n *verifNode) id2(f File) int {
	if o, ok := f.(*verifNode); ok && o != nil {
		return o.id
	}
	return -1
}

func (n *verifNode) Walk(names []string) ([]QID, File, error) {
	defer n.rec(verifCall{op: "Walk", s: append([]string(nil), names...), npath: len(names)})()
	if err := n.fs.fault(); err != nil {
		return nil, nil, err
	}
	if len(names) == 0 {
		c := n.fs.newNode(n.mode)
		c.parent, c.name = n.parent, n.name
		return nil, c, nil
	}
	var qids []QID
	cur := n
	for _, nm := range names {
		m := n.fs.walkMode
		if m == 0 {
			m = FileMode(verifNondetU32())
		}
		c := n.fs.newNode(m)
		c.parent, c.name = cur.id, nm
		qids = append(qids, verifQID())
		cur = c
	}
	return qids, cur, nil
}

func (n *verifNode) WalkGetAttr(names []string) ([]QID, File, AttrMask, Attr, error) {
	if !n.useWGA && !n.fs.useWGAall {
		return nil, nil, AttrMask{}, Attr{}, linux.ENOSYS
	}
	defer n.rec(verifCall{op: "WalkGetAttr", s: append([]string(nil), names...), npath: len(names)})()
	if err := n.fs.fault(); err != nil {
		return nil, nil, AttrMask{}, Attr{}, err
	}
	q, f, _ := n.walkNoRec(names)
	a := verifAttr()
	a.Mode = f.(*verifNode).mode
	return q, f, AttrMask{Mode: true}, a, nil
}

func (n *verifNode) walkNoRec(names []string) ([]QID, File, error) {
	if len(names) == 0 {
		c := n.fs.newNode(n.mode)
		c.parent, c.name = n.parent, n.name
		return nil, c, nil
	}
	var qids []QID
	cur := n
	for _, nm := range names {
		c := n.fs.newNode(FileMode(verifNondetU32()))
		c.parent, c.name = cur.id, nm
		qids = append(qids, verifQID())
		cur = c
	}
	return qids, cur, nil
}

func (n *verifNode) StatFS() (FSStat, error) {
	defer n.rec(verifCall{op: "StatFS"})()
	if err := n.fs.fault(); err != nil {
		return FSStat{}, err
	}
	var st FSStat
	verifHavoc(&st, 0, 0, 0)
	if !n.fs.sched {
		n.fs.lastStat = st
	}
	return st, nil
}

func (n *verifNode) GetAttr(req AttrMask) (QID, AttrMask, Attr, error) {
	defer n.rec(verifCall{op: "GetAttr", u: []uint64{verifMaskBits(req)}})()
	if err := n.fs.fault(); err != nil {
		return QID{}, AttrMask{}, Attr{}, err
	}
	a := verifAttr()
	a.Mode = n.mode
	q := verifQID()
	var valid AttrMask
	verifHavoc(&valid, 0, 0, 0)
	valid.Mode = true
	if !n.fs.sched {
		n.fs.lastQID, n.fs.lastAttr, n.fs.lastValid = q, a, valid
	}
	return q, valid, a, nil
}

func verifMaskBits(a AttrMask) uint64 {
	e := &specEnc{}
	e.attrMask(a)
	return uint64(e.b[0]) | uint64(e.b[1])<<8
}

func verifSetMaskBits(a SetAttrMask) uint64 {
	e := &specEnc{}
	e.setAttrMask(a)
	return uint64(e.b[0]) | uint64(e.b[1])<<8
}

func (n *verifNode) SetAttr(valid SetAttrMask, attr SetAttr) error {
	defer n.rec(verifCall{op: "SetAttr", u: []uint64{verifSetMaskBits(valid), uint64(attr.Permissions), uint64(attr.UID), uint64(attr.GID), attr.Size,
		attr.ATimeSeconds, attr.ATimeNanoSeconds, attr.MTimeSeconds, attr.MTimeNanoSeconds}})()
	return n.fs.fault()
}

func (n *verifNode) Close() error {
	defer n.rec(verifCall{op: "Close"})()
	if n.fs.sched {
		return nil
	}
	n.closed++
	if !n.fs.faultClose {
		return nil
	}
	return n.fs.fault()
}

func (n *verifNode) Open(mode OpenFlags) (QID, uint32, error) {
	defer n.rec(verifCall{op: "Open", u: []uint64{uint64(mode)}})()
	if !n.fs.sched {
		n.opens++
	}
	if err := n.fs.fault(); err != nil {
		return QID{}, 0, err
	}
	q, io := verifQID(), verifNondetU32()
	if !n.fs.sched {
		n.fs.lastQID, n.fs.lastU32 = q, io
	}
	return q, io, nil
}

func (n *verifNode) ReadAt(p []byte, offset int64) (int, error) {
	defer n.rec(verifCall{op: "ReadAt", u: []uint64{uint64(len(p)), uint64(offset)}})()
	if err := n.fs.fault(); err != nil {
		return 0, err
	}
	// serve from readData at offset (a byte-slice file model)
	if offset < 0 || offset >= int64(len(n.fs.readData)) {
		return 0, io.EOF
	}
	c := copy(p, n.fs.readData[offset:])
	return c, nil
}

func (n *verifNode) WriteAt(p []byte, offset int64) (int, error) {
	defer n.rec(verifCall{op: "WriteAt", u: []uint64{uint64(len(p)), uint64(offset)}, b: append([]byte(nil), p...)})()
	if err := n.fs.fault(); err != nil {
		return 0, err
	}
	r := int(verifNondetU32())
	verifAssume(r >= 0 && r <= len(p))
	if !n.fs.sched {
		n.fs.lastInt = r
	}
	return r, nil
}

func (n *verifNode) SetXattr(attr string, data []byte, flags XattrFlags) error {
	defer n.rec(verifCall{op: "SetXattr", s: []string{attr}, u: []uint64{uint64(flags)}, b: append([]byte(nil), data...)})()
	return n.fs.fault()
}

func (n *verifNode) GetXattr(attr string) ([]byte, error) {
	defer n.rec(verifCall{op: "GetXattr", s: []string{attr}})()
	if err := n.fs.fault(); err != nil {
		return nil, err
	}
	return n.fs.xattr, nil
}

func (n *verifNode) ListXattrs() ([]string, error) {
	defer n.rec(verifCall{op: "ListXattrs"})()
	if err := n.fs.fault(); err != nil {
		return nil, err
	}
	return n.fs.xattrs, nil
}

func (n *verifNode) RemoveXattr(attr string) error {
	defer n.rec(verifCall{op: "RemoveXattr", s: []string{attr}})()
	return n.fs.fault()
}

func (n *verifNode) FSync() error {
	defer n.rec(verifCall{op: "FSync"})()
	return n.fs.fault()
}

func (n *verifNode) Lock(pid int, locktype LockType, flags LockFlags, start, length uint64, client string) (LockStatus, error) {
	defer n.rec(verifCall{op: "Lock", s: []string{client}, u: []uint64{uint64(pid), uint64(locktype), uint64(flags), start, length}})()
	if err := n.fs.fault(); err != nil {
		return LockStatusError, err
	}
	st := LockStatus(verifNondetU8())
	if !n.fs.sched {
		n.fs.lastU32 = uint32(st)
	}
	return st, nil
}

func (n *verifNode) Create(name string, flags OpenFlags, permissions FileMode, uid UID, gid GID) (File, QID, uint32, error) {
	defer n.rec(verifCall{op: "Create", s: []string{name}, npath: 1, u: []uint64{uint64(flags), uint64(permissions), uint64(uid), uint64(gid)}})()
	if err := n.fs.fault(); err != nil {
		return nil, QID{}, 0, err
	}
	c := n.fs.newNode(ModeRegular | 0644)
	c.parent, c.name = n.id, name
	q, io := verifQID(), verifNondetU32()
	if !n.fs.sched {
		n.fs.lastQID, n.fs.lastU32 = q, io
	}
	return c, q, io, nil
}

func (n *verifNode) Mkdir(name string, permissions FileMode, uid UID, gid GID) (QID, error) {
	defer n.rec(verifCall{op: "Mkdir", s: []string{name}, npath: 1, u: []uint64{uint64(permissions), uint64(uid), uint64(gid)}})()
	if err := n.fs.fault(); err != nil {
		return QID{}, err
	}
	q := verifQID()
	if !n.fs.sched {
		n.fs.lastQID = q
	}
	return q, nil
}

func (n *verifNode) Symlink(oldName string, newName string, uid UID, gid GID) (QID, error) {
	defer n.rec(verifCall{op: "Symlink", s: []string{newName, oldName}, npath: 1, u: []uint64{uint64(uid), uint64(gid)}})()
	if err := n.fs.fault(); err != nil {
		return QID{}, err
	}
	q := verifQID()
	if !n.fs.sched {
		n.fs.lastQID = q
	}
	return q, nil
}

func (n *verifNode) Link(target File, newName string) error {
	defer n.rec(verifCall{op: "Link", s: []string{newName}, npath: 1, other: n.id2(target)})()
	return n.fs.fault()
}

func (n *verifNode) Mknod(name string, mode FileMode, major uint32, minor uint32, uid UID, gid GID) (QID, error) {
	defer n.rec(verifCall{op: "Mknod", s: []string{name}, npath: 1, u: []uint64{uint64(mode), uint64(major), uint64(minor), uint64(uid), uint64(gid)}})()
	if err := n.fs.fault(); err != nil {
		return QID{}, err
	}
	q := verifQID()
	if !n.fs.sched {
		n.fs.lastQID = q
	}
	return q, nil
}

func (n *verifNode) Rename(newDir File, newName string) error {
	defer n.rec(verifCall{op: "Rename", s: []string{newName}, npath: 1, other: n.id2(newDir)})()
	return n.fs.fault()
}

func (n *verifNode) RenameAt(oldName string, newDir File, newName string) error {
	defer n.rec(verifCall{op: "RenameAt", s: []string{oldName, newName}, npath: 2, other: n.id2(newDir)})()
	// like every real file system, refuse to move a directory into itself
	// or into its own subtree (rename(2): EINVAL)
	if d, ok := newDir.(*verifNode); ok {
		for a, hops := d, 0; a != nil && hops < 8; a, hops = n.fs.node(a.parent), hops+1 {
			if a.name == oldName && n.samePath(n.fs.node(a.parent)) {
				return linux.EINVAL
			}
		}
	}
	return n.fs.fault()
}

// samePath: both nodes denote the same path (clones share parent and name).
func (n *verifNode) samePath(o *verifNode) bool {
	if o == nil {
		return false
	}
	if n == o {
		return true
	}
	return n.parent == o.parent && n.name == o.name
}

func (n *verifNode) UnlinkAt(name string, flags uint32) error {
	defer n.rec(verifCall{op: "UnlinkAt", s: []string{name}, npath: 1, u: []uint64{uint64(flags)}})()
	return n.fs.fault()
}

func (n *verifNode) Readdir(offset uint64, count uint32) (Dirents, error) {
	defer n.rec(verifCall{op: "Readdir", u: []uint64{offset, uint64(count)}})()
	if err := n.fs.fault(); err != nil {
		return nil, err
	}
	return n.fs.dirents, nil
}

func (n *verifNode) Readlink() (string, error) {
	defer n.rec(verifCall{op: "Readlink"})()
	if err := n.fs.fault(); err != nil {
		return "", err
	}
	return n.fs.linkTarget, nil
}

func (n *verifNode) Renamed(newDir File, newName string) {
	defer n.rec(verifCall{op: "Renamed", s: []string{newName}, npath: 1, other: n.id2(newDir)})()
	if o, ok := newDir.(*verifNode); ok {
		n.parent, n.name = o.id, newName
	}
	if n.fs.faults == 2 {
		// Renamed has no error result; it may only panic.
		if verifChoice(2) == 1 {
			n.fs.log[len(n.fs.log)-1].fault = 2
			panic("verif: backend panic in Renamed")
		}
	}
}

// verifSafeName is the property's own statement of a safe path component.
func verifSafeName(s string) bool {
	if len(s) == 0 || s == "." || s == ".." {
		return false
	}
	for i := 0; i < len(s); i++ {
		if s[i] == '/' {
			return false
		}
	}
	return true
}

// verifNewSession builds server + connection + recording backend and
// negotiates version v with a large msize.
func verifNewSession(fs *verifFS, v uint32) (*Server, *connState) {
	s := NewServer(fs)
	cs := verifNewConn(s)
	vs := specCanonVersion(uint64(v))
	r := cs.handle(&tversion{MSize: 8192, Version: vs})
	_, ok := r.(*rversion)
	verifAssume(ok)
	return s, cs
}

// verifErrnoOf returns the errno of an Rlerror reply, or 0.
func verifErrnoOf(m message) uint32 {
	if e, ok := m.(*rlerror); ok {
		return e.Error
	}
	return 0
}
