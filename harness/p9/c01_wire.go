package p9

// C01: wire layout conformance and lossless round trip, all 65 message types.

func verifShape() (sl, ll, pl int) {
	sl = verifChoice(verifParam("L", 2) + 1)
	ll = verifChoice(verifParam("N", 2) + 1)
	pl = verifChoice(verifParam("P", 2) + 1)
	return
}

func verifFreshMsg(t uint8) message {
	m, err := msgDotLRegistry.get(0, msgType(t))
	verifAssert(err == nil && m != nil, "every 9P2000.L type number is registered")
	return m
}

// VerifH_C01_Encode: send(m) writes exactly the specified bytes.
func VerifH_C01_Encode() {
	t := specTypes[verifChoice(len(specTypes))]
	m := verifFreshMsg(t)
	sl, ll, pl := verifShape()
	verifHavoc(m, sl, ll, pl)
	tg := verifNondetU16()
	want, wt, ok := specFrame(tg, m)
	verifAssert(ok && wt == t, "registry returns the type the table names")
	w := &verifRecWriter{keep: true}
	err := send(verifLog, w, tag(tg), m)
	verifAssert(err == nil, "send succeeds")
	verifReach("encoded")
	verifOut("frame", w.data)
	verifAssert(len(w.data) == len(want), "frame length as specified")
	verifAssert(verifBytesDiff(w.data, want) == 0, "frame bytes as specified")
	verifAssert(uint8(m.typ()) == t, "typ() is the wire type")
}

// VerifH_C01_Decode: recv of the specified bytes reconstructs the values sent.
func VerifH_C01_Decode() {
	t := specTypes[verifChoice(len(specTypes))]
	m := verifFreshMsg(t)
	sl, ll, pl := verifShape()
	verifHavoc(m, sl, ll, pl)
	if rd, ok := m.(*rreaddir); ok {
		// a well-formed directory reply: count is the size of its data
		total := 0
		for _, d := range rd.Entries {
			total += specDirentSize(d)
		}
		rd.Count = uint32(total)
	}
	tg := verifNondetU16()
	frame, _, ok := specFrame(tg, m)
	verifAssert(ok, "spec frame")
	r := &verifSegReader{data: frame}
	gotTag, got, err := recv(verifLog, r, uint32(len(frame))+uint32(verifNondetU8()), msgDotLRegistry.get)
	verifAssert(err == nil, "well-formed frame accepted")
	if err != nil {
		return
	}
	verifReach("decoded")
	verifAssert(uint16(gotTag) == tg, "tag reconstructed")
	verifAssert(uint8(got.typ()) == t, "type reconstructed")
	verifAssert(r.pos == len(frame), "whole frame consumed")
	specCanon(m)
	verifAssert(verifEqual(got, m), "fields reconstructed")
}

// VerifH_C01_Registry: every type number 0..255 is registered iff the
// protocol defines it.
func VerifH_C01_Registry() {
	t := verifNondetU8()
	m, err := msgDotLRegistry.get(0, msgType(t))
	if specIsRegistered(t) {
		verifReach("registered")
		verifAssert(err == nil && m != nil, "defined type is registered")
		if err == nil {
			verifAssert(uint8(m.typ()) == t, "registered under its own number")
		}
	} else {
		verifReach("unregistered")
		verifAssert(err != nil, "undefined type number is rejected")
	}
}
