package p9

import "io"

// C02: decoder safety, bounded buffering, frame resynchronisation.

// verifLimitReader serves a byte stream and watches for reads issued at or
// beyond a (possibly symbolic) limit: the receiver must not ask for input
// once its frame is complete.
type verifLimitReader struct {
	data  []byte
	pos   int
	limit uint64 // 0 = unset
	over  bool   // a Read was issued with pos >= limit
	reads int
}

func (r *verifLimitReader) Read(p []byte) (int, error) {
	r.reads++
	if len(p) > 0 {
		r.over = r.over || (r.limit != 0 && uint64(r.pos) >= r.limit)
	}
	if r.pos >= len(r.data) {
		return 0, io.EOF
	}
	n := copy(p, r.data[r.pos:])
	r.pos += n
	return n, nil
}
func (r *verifLimitReader) Close() error { return nil }

func verifIsTType(t uint8) bool {
	switch t {
	case 8, 12, 14, 16, 18, 20, 22, 24, 26, 30, 32, 40, 50, 52, 70, 72, 74, 76, 100, 102, 104, 108, 110, 116, 118, 120, 122, 126, 128, 130, 132, 134:
		return true
	}
	return false
}

// verifBoundCounts keeps the 16-bit element counts of the four list-carrying
// types (Twalk, Rwalk, Twalkgetattr, Rwalkgetattr) at most 4: their decoders
// loop `count` times even on an overrun buffer (up to 65535 appends of empty
// elements for a tiny frame - recorded as an observation in DESIGN.md); larger
// counts are outside the bound of this harness.
func verifBoundCounts(t uint8, body []byte) {
	switch t {
	case 110, 111, 126, 127:
		// A failed fixed-width read does not consume, so on a short body the
		// 16-bit element count may be read at any 4-byte-aligned offset.
		for off := 0; off+2 <= len(body); off += 4 {
			verifAssume(uint16(body[off])|uint16(body[off+1])<<8 <= 4)
		}
	}
}

// verifReencodeMatches: a delivered message carries exactly the field values
// encoded in the frame: re-encoding it with the independent layout gives the
// frame's bytes again (trailing bytes are ignored by every decoder; the high
// bits of permission fields are dropped by design).
func verifReencodeMatches(m message, frame []byte) bool {
	switch x := m.(type) {
	case *tlcreate, *tucreate, *tmkdir, *tumkdir, *tsetattr:
		_ = x
		return true // covered field-by-field in C01 (permission masking changes bytes)
	case *rreaddir:
		// count as sent; entries are the whole entries found in the data
		if len(frame) < 11 {
			return false
		}
		e := &specEnc{}
		for _, d := range x.Entries {
			e.dirent(d)
		}
		if len(e.b) > len(frame)-11 {
			return false
		}
		return x.Count == verifLE32(frame[7:11]) && verifBytesDiff(e.b, frame[11:11+len(e.b)]) == 0
	}
	body := &specEnc{}
	if _, ok := specBody(body, m); !ok {
		return false
	}
	if len(body.b) > len(frame)-7 {
		return false
	}
	if _, ok := m.(*tgetattr); ok && len(frame) >= 19 {
		// request_mask[8]: only bits 0..13 (P9_GETATTR_ALL = 0x3fff) name
		// attributes; AttrMask has no field for the others, they carry no value
		f := append([]byte{}, frame...)
		f[12] &= 0x3f
		for i := 13; i < 19; i++ {
			f[i] = 0
		}
		frame = f
	}
	return verifBytesDiff(body.b, frame[7:7+len(body.b)]) == 0
}

// VerifH_C02_Recv: arbitrary header and body bytes.
func VerifH_C02_Recv() {
	t := uint8(verifChoice(256))
	B := verifParam("B", 8)
	R := verifChoice(B + 1)
	if pt := verifParam("T", -1); pt >= 0 {
		verifAssume(int(t) == pt)
	}
	if pr := verifParam("R", -1); pr >= 0 {
		verifAssume(R == pr)
	}
	hdr := verifNondetBytes(7)
	hdr[4] = t
	rest := verifNondetBytes(R)
	verifBoundCounts(t, rest)
	msize := verifNondetU32()
	size := verifLE32(hdr[0:4])
	stream := append(append([]byte{}, hdr...), rest...)
	r := &verifLimitReader{data: stream}
	if size >= 7 {
		r.limit = uint64(size)
	}
	// truncated frames: cut 1 or 2 bytes short, or by more than the pooled 64-byte buffer
	// (the truncation lengths in between take the same code path)
	verifAssume(size < 7 || uint64(size)-7 <= uint64(R)+2 || uint64(size)-7 > 64)
	tg, m, err := recv(verifLog, r, msize, msgDotLRegistry.get)
	limit := msize
	if limit > 4*1024*1024 {
		limit = 4 * 1024 * 1024
	}
	complete := size >= 7 && uint64(size)-7 <= uint64(R)
	_, isConn := err.(ConnError)
	switch {
	case size < 7 || size > limit:
		verifReach("bad-size")
		verifAssert(isConn && m == nil, "size below 7 or above msize ends the connection")
		verifAssert(r.pos == 7, "body not read after a bad size field")
	case !complete:
		verifReach("truncated")
		// (for a frame that is being discarded the end of stream may surface on the next receive)
		verifAssert(err != nil && m == nil, "stream ending inside the frame never yields a message")
	case err == nil:
		verifReach("delivered")
		verifAssert(m != nil && uint8(m.typ()) == t && uint16(tg) == uint16(hdr[5])|uint16(hdr[6])<<8, "delivered message has the frame's type and tag")
		verifAssert(uint64(r.pos) == uint64(size), "a delivered frame consumes exactly its declared size")
		verifAssert(verifReencodeMatches(m, stream[:size]), "delivered message carries exactly the field values encoded in the frame")
		verifAssert(specIsRegistered(t), "only defined types are delivered")
	default:
		verifReach("rejected")
		verifAssert(!isConn && m == nil, "a well-delimited bad frame is rejected without ending the connection")
		verifAssert(uint64(r.pos) == uint64(size), "a rejected frame consumes exactly its declared size")
	}
	verifAssert(!r.over, "no read is issued once the frame is complete")
}

// verifBigReader serves a 7-byte header followed by n unconstrained bytes,
// n symbolic (sizes only).
type verifBigReader struct {
	hdr  []byte
	hpos int
	rest []byte
	pos  int
}

func (r *verifBigReader) Read(p []byte) (int, error) {
	if r.hpos < len(r.hdr) {
		n := copy(p, r.hdr[r.hpos:])
		r.hpos += n
		return n, nil
	}
	if r.pos >= len(r.rest) {
		return 0, io.EOF
	}
	n := copy(p, r.rest[r.pos:])
	r.pos += n
	return n, nil
}

// VerifH_C02_Alloc: size field, msize and available bytes fully symbolic;
// every allocation made while receiving is bounded by the negotiated msize.
func VerifH_C02_Alloc() {
	types := []uint8{0, 120, 119, 117, 118}
	t := types[verifChoice(len(types))]
	hdr := verifNondetBytes(7)
	hdr[4] = t
	avail := int(verifNondetU32())
	verifAssume(avail >= 0)
	msize := verifNondetU32()
	// the stream holds the whole declared frame, or nothing after the header
	// (truncation at every offset is VerifH_C02_Recv's subject)
	sz := verifLE32(hdr[0:4])
	verifAssume(avail == 0 || (sz >= 7 && uint64(avail) >= uint64(sz)-7))
	r := &verifBigReader{hdr: hdr, rest: verifNondetBytesN(avail)}
	verifAllocStart()
	_, _, err := recv(verifLog, r, msize, msgDotLRegistry.get)
	limit := uint64(msize)
	if limit > 4*1024*1024 {
		limit = 4 * 1024 * 1024
	}
	if limit < 8192 {
		limit = 8192 // fixed-size transient buffers (pooled 64-byte buffer, 8 KiB drain buffer)
	}
	verifAllocAssertLE(limit, "no single allocation exceeds the negotiated msize (4 MiB at most)")
	if err == nil {
		verifReach("alloc-delivered")
	} else {
		verifReach("alloc-refused")
	}
}

// VerifH_C02_Resync: server answers a rejected frame with Rlerror and keeps
// serving the frames after it.
func VerifH_C02_Resync() {
	fs := &verifFS{}
	_, cs := verifNewSession(fs, 0)
	t := uint8(verifChoice(256))
	B := verifParam("B", 6)
	R := verifChoice(B + 1)
	if verifIsTType(t) {
		// requests are kept undecodable here (too short); decodable requests are C04/C06's subject
		verifAssume(R <= 1)
	}
	hdr := verifNondetBytes(7)
	hdr[4] = t
	rest := verifNondetBytes(R)
	verifBoundCounts(t, rest)
	size := verifLE32(hdr[0:4])
	goodTag := verifNondetU16()
	good, _, _ := specFrame(goodTag, &tclunk{fid: 77})
	stream := append(append(append([]byte{}, hdr...), rest...), good...)
	w := &verifRecWriter{keep: true}
	cs.t = &verifLimitReader{data: stream}
	cs.r = w
	wellDelimited := size >= 7 && uint64(size) <= 8192 && uint64(size)-7 == uint64(R)
	// the first frame is either badly sized or well delimited (its declared
	// size is exactly its body); frames that swallow part of the next one are
	// a different stream
	verifAssume(wellDelimited || size < 7 || uint64(size) > 8192)
	first := cs.handleRequest()
	if size < 7 || uint64(size) > 8192 {
		verifReach("resync-bad-size")
		verifAssert(!first && cs.recvShutdown && w.writes == 0, "bad size ends the connection without a reply")
		return
	}
	verifReach("resync-rejected")
	verifAssert(first, "a well-delimited frame keeps the connection alive")
	n1 := len(w.data)
	verifAssert(n1 == 11 && w.data[4] == 7, "a rejected or unserved frame is answered with one Rlerror")
	second := cs.handleRequest()
	verifAssert(second, "the following frame is still served")
	verifAssert(len(w.data) == 22 && w.data[n1+4] == 7 && uint16(w.data[n1+5])|uint16(w.data[n1+6])<<8 == goodTag, "the following frame is answered with its own tag")
	verifAssert(verifLE32(w.data[n1+7:n1+11]) == linux_EBADF, "the following frame was decoded correctly (Tclunk of an unbound fid -> EBADF)")
}
