package p9

import (
	"io"

	"github.com/hugelgupf/p9/linux"
)

// C03: client/server transparency for every File operation at every version.

func verifVersionOf() uint32 {
	// quick: {0, 2, 7}; thorough: 0..7
	if verifParam("ALLV", 0) == 1 {
		return uint32(verifChoice(8))
	}
	return []uint32{0, 2, 3, 7}[verifChoice(4)]
}

// verifCheckErr: after an injected backend error the client must return the
// equivalent Linux errno; without one, no error.
func verifCheckErr(fs *verifFS, err error, what string) bool {
	if fs.nfaults > 0 {
		verifReach("backend-error")
		e, ok := err.(linux.Errno)
		verifAssert(ok && uint32(e) == fs.lastExpect, "backend error arrives as the equivalent Linux errno ("+what+")")
		return false
	}
	verifAssert(err == nil, "no error without a backend error ("+what+")")
	return err == nil
}

func verifCheckTypes(l *verifLoop, v uint32) {
	for _, t := range l.frames {
		ok := !(t == 126 && v < 2) && !((t == 128 || t == 130 || t == 132 || t == 134) && v < 3)
		verifAssert(ok && verifIsTType(t), "only message types the negotiated version defines are sent")
	}
}

// ops since `from`, ignoring Close
func verifOps(fs *verifFS, from int) []verifCall {
	var out []verifCall
	for i := from; i < len(fs.log); i++ {
		if fs.log[i].op != "Close" {
			out = append(out, fs.log[i])
		}
	}
	return out
}

// VerifH_C03_Ops: one File method per path, handle derived by attach/walk/create.
func VerifH_C03_Ops() {
	v := verifVersionOf()
	fs := &verifFS{errAlpha: verifParam("ALPHA", 1)}
	c, l := verifLoopClient(fs, v)
	rootF, err := c.Attach("")
	verifAssume(err == nil)
	root := rootF.(*clientFile)
	rootNode := fs.nodes[0]

	// derive a handle on a directory, a regular file (unopened / opened / created) or a symlink
	walkName := "x"
	walkTo := func(mode FileMode) (*clientFile, *verifNode) {
		fs.walkMode = mode
		_, f, err := root.Walk([]string{walkName})
		verifAssume(err == nil)
		return f.(*clientFile), fs.nodes[len(fs.nodes)-1]
	}
	L := verifParam("L", 2)
	name := func() string { return verifNondetString(1 + verifChoice(L)) }
	nameSafe := func() string {
		s := name()
		verifAssume(verifSafeName(s))
		return s
	}
	op := verifChoice(27)
	if po := verifParam("OP", -1); po >= 0 {
		verifAssume(op == po)
	}
	inject := func() int {
		fs.faults, fs.maxFault = 1, 1
		l.frames = nil
		return len(fs.log)
	}
	uidOf := func(u UID) uint64 {
		if v < 3 {
			return uint64(NoUID)
		}
		return uint64(u)
	}
	gidOf := func(g GID) uint64 {
		if v < 3 {
			return uint64(NoGID)
		}
		return uint64(g)
	}
	switch op {
	case 0: // StatFS
		h, n := root, rootNode
		if verifChoice(2) == 1 {
			h, n = walkTo(ModeRegular)
		}
		start := inject()
		st, err := h.StatFS()
		ops := verifOps(fs, start)
		verifAssert(len(ops) == 1 && ops[0].op == "StatFS" && ops[0].node == n.id, "StatFS reaches the File the handle was derived from")
		if verifCheckErr(fs, err, "StatFS") {
			verifAssert(st == fs.lastStat, "StatFS result unchanged")
		}
	case 1: // FSync (needs an opened file)
		h, n := walkTo(ModeRegular)
		_, _, err := h.Open(ReadWrite)
		verifAssume(err == nil)
		start := inject()
		err = h.FSync()
		ops := verifOps(fs, start)
		verifAssert(len(ops) == 1 && ops[0].op == "FSync" && ops[0].node == n.id, "FSync reaches its File")
		verifCheckErr(fs, err, "FSync")
	case 2: // GetAttr
		h, n := walkTo(FileMode(verifNondetU32()))
		var req AttrMask
		verifHavoc(&req, 0, 0, 0)
		start := inject()
		q, valid, a, err := h.GetAttr(req)
		ops := verifOps(fs, start)
		verifAssert(len(ops) == 1 && ops[0].op == "GetAttr" && ops[0].node == n.id && ops[0].u[0] == verifMaskBits(req), "GetAttr reaches its File with the same mask")
		if verifCheckErr(fs, err, "GetAttr") {
			verifAssert(q == fs.lastQID && valid == fs.lastValid && a == fs.lastAttr, "GetAttr results unchanged")
		}
	case 3: // SetAttr
		h, n := walkTo(ModeRegular)
		var m SetAttrMask
		var a SetAttr
		verifHavoc(&m, 0, 0, 0)
		verifHavoc(&a, 0, 0, 0)
		start := inject()
		err := h.SetAttr(m, a)
		ops := verifOps(fs, start)
		ok := len(ops) == 1 && ops[0].op == "SetAttr" && ops[0].node == n.id
		verifAssert(ok, "SetAttr reaches its File")
		if ok {
			u := ops[0].u
			verifAssert(u[0] == verifSetMaskBits(m) && u[1] == uint64(a.Permissions&07777) && u[2] == uint64(a.UID) && u[3] == uint64(a.GID) &&
				u[4] == a.Size && u[5] == a.ATimeSeconds && u[6] == a.ATimeNanoSeconds && u[7] == a.MTimeSeconds && u[8] == a.MTimeNanoSeconds,
				"SetAttr arguments unchanged (permissions masked to 07777)")
		}
		verifCheckErr(fs, err, "SetAttr")
	case 4: // Lock
		h, n := walkTo(ModeRegular)
		pid := int(int32(verifNondetU32()))
		lt, lf := LockType(verifNondetU8()), LockFlags(verifNondetU32())
		st, ln := verifNondetU64(), verifNondetU64()
		client := name()
		start := inject()
		status, err := h.Lock(pid, lt, lf, st, ln, client)
		ops := verifOps(fs, start)
		ok := len(ops) == 1 && ops[0].op == "Lock" && ops[0].node == n.id
		verifAssert(ok, "Lock reaches its File")
		if ok {
			u := ops[0].u
			verifAssert(u[0] == uint64(pid) && u[1] == uint64(lt) && u[2] == uint64(lf) && u[3] == st && u[4] == ln && ops[0].s[0] == client, "Lock arguments unchanged")
		}
		if verifCheckErr(fs, err, "Lock") {
			verifAssert(uint32(status) == fs.lastU32, "Lock status unchanged")
		}
	case 5: // Open
		h, n := walkTo(ModeRegular)
		flags := OpenFlags(verifNondetU32())
		start := inject()
		q, iou, err := h.Open(flags)
		ops := verifOps(fs, start)
		verifAssert(len(ops) == 1 && ops[0].op == "Open" && ops[0].node == n.id && ops[0].u[0] == uint64(flags), "Open reaches its File with the same flags")
		if verifCheckErr(fs, err, "Open") {
			verifAssert(q == fs.lastQID && iou == fs.lastU32, "Open results unchanged")
		}
	case 6: // ReadAt (one chunk)
		h, n := walkTo(ModeRegular)
		_, _, err := h.Open(ReadOnly)
		verifAssume(err == nil)
		fs.readData = verifNondetBytes(verifChoice(4))
		p := make([]byte, verifChoice(4))
		off := int64(verifNondetU64() >> 1)
		start := inject()
		got, err := h.ReadAt(p, off)
		ops := verifOps(fs, start)
		ok := len(ops) == 1 && ops[0].op == "ReadAt" && ops[0].node == n.id
		verifAssert(ok, "ReadAt reaches its File")
		if ok {
			verifAssert(ops[0].u[0] == uint64(len(p)) && ops[0].u[1] == uint64(off), "ReadAt length and offset unchanged")
		}
		if fs.nfaults > 0 {
			verifCheckErr(fs, err, "ReadAt")
		} else {
			// model file semantics: bytes from off, io.EOF iff nothing delivered for a non-empty p
			want := 0
			if off < int64(len(fs.readData)) {
				want = len(fs.readData) - int(off)
				if want > len(p) {
					want = len(p)
				}
			}
			verifAssert(got == want, "ReadAt returns the file's bytes from the offset")
			for i := 0; i < got; i++ {
				verifAssert(p[i] == fs.readData[int(off)+i], "ReadAt data unchanged")
			}
			verifAssert((err == io.EOF) == (got == 0 && len(p) > 0), "io.EOF exactly for an empty read into a non-empty buffer")
			verifAssert(err == nil || err == io.EOF, "no other error")
		}
	case 7: // WriteAt (one chunk)
		h, n := walkTo(ModeRegular)
		_, _, err := h.Open(WriteOnly)
		verifAssume(err == nil)
		p := verifNondetBytes(verifChoice(4))
		off := int64(verifNondetU64() >> 1)
		start := inject()
		got, err := h.WriteAt(p, off)
		ops := verifOps(fs, start)
		ok := len(ops) == 1 && ops[0].op == "WriteAt" && ops[0].node == n.id
		verifAssert(ok, "WriteAt reaches its File")
		if ok {
			verifAssert(ops[0].u[1] == uint64(off) && verifBytesDiff(ops[0].b, p) == 0, "WriteAt data and offset unchanged")
		}
		if verifCheckErr(fs, err, "WriteAt") {
			verifAssert(got == fs.lastInt, "WriteAt count unchanged")
		}
	case 8: // Readdir
		h, n := walkTo(ModeDirectory)
		_, _, err := h.Open(ReadOnly)
		verifAssume(err == nil)
		ne := verifChoice(3)
		fs.dirents = nil
		for i := 0; i < ne; i++ {
			var d Dirent
			verifHavoc(&d, 1+verifChoice(2), 0, 0)
			fs.dirents = append(fs.dirents, d)
		}
		off, cnt := verifNondetU64(), verifNondetU32()
		verifAssume(cnt <= 4096)
		start := inject()
		ents, err := h.Readdir(off, cnt)
		ops := verifOps(fs, start)
		verifAssert(len(ops) == 1 && ops[0].op == "Readdir" && ops[0].node == n.id && ops[0].u[0] == off && ops[0].u[1] == uint64(cnt), "Readdir reaches its File with the same offset and count")
		if verifCheckErr(fs, err, "Readdir") {
			// whole entries within the requested byte count
			total, k := 0, 0
			for _, d := range fs.dirents {
				if uint64(total+specDirentSize(d)) > uint64(cnt) {
					break
				}
				total += specDirentSize(d)
				k++
			}
			verifAssert(len(ents) == k, "Readdir: the whole entries that fit in count")
			for i := 0; i < k && i < len(ents); i++ {
				verifAssert(ents[i] == fs.dirents[i], "Readdir entries unchanged")
			}
		}
	case 9: // Readlink
		h, n := walkTo(ModeSymlink)
		fs.linkTarget = verifNondetString(verifChoice(L + 1))
		start := inject()
		tgt, err := h.Readlink()
		ops := verifOps(fs, start)
		verifAssert(len(ops) == 1 && ops[0].op == "Readlink" && ops[0].node == n.id, "Readlink reaches its File")
		if verifCheckErr(fs, err, "Readlink") {
			verifAssert(tgt == fs.linkTarget, "Readlink target unchanged")
		}
	case 10: // Create
		h, n := walkTo(ModeDirectory)
		nm := nameSafe()
		flags, perm, uid, gid := OpenFlags(verifNondetU32()), FileMode(verifNondetU32()), UID(verifNondetU32()), GID(verifNondetU32())
		start := inject()
		nf, q, iou, err := h.Create(nm, flags, perm, uid, gid)
		ops := verifOps(fs, start)
		ok := len(ops) == 1 && ops[0].op == "Create" && ops[0].node == n.id
		verifAssert(ok, "Create reaches the directory File")
		if ok {
			u := ops[0].u
			verifAssert(ops[0].s[0] == nm && u[0] == uint64(flags) && u[1] == uint64(perm&07777) && u[2] == uidOf(uid) && u[3] == gidOf(gid), "Create arguments unchanged (perm masked, uid/gid dropped below v3)")
		}
		if verifCheckErr(fs, err, "Create") {
			verifAssert(q == fs.lastQID && iou == fs.lastU32 && nf != nil, "Create results unchanged")
			// the returned handle now denotes the created file: I/O reaches it
			created := fs.nodes[len(fs.nodes)-1]
			fs.faults = 0
			s2 := len(fs.log)
			werr := nf.FSync()
			o2 := verifOps(fs, s2)
			verifAssert(werr == nil && len(o2) == 1 && o2[0].op == "FSync" && o2[0].node == created.id, "handle returned by Create denotes the created, already open file")
		}
	case 11: // Mkdir
		h, n := walkTo(ModeDirectory)
		nm := nameSafe()
		perm, uid, gid := FileMode(verifNondetU32()), UID(verifNondetU32()), GID(verifNondetU32())
		start := inject()
		q, err := h.Mkdir(nm, perm, uid, gid)
		ops := verifOps(fs, start)
		ok := len(ops) == 1 && ops[0].op == "Mkdir" && ops[0].node == n.id
		verifAssert(ok, "Mkdir reaches the directory File")
		if ok {
			u := ops[0].u
			verifAssert(ops[0].s[0] == nm && u[0] == uint64(perm&07777) && u[1] == uidOf(uid) && u[2] == gidOf(gid), "Mkdir arguments unchanged")
		}
		if verifCheckErr(fs, err, "Mkdir") {
			verifAssert(q == fs.lastQID, "Mkdir QID unchanged")
		}
	case 12: // Symlink
		h, n := walkTo(ModeDirectory)
		nm := nameSafe()
		tgt := verifNondetString(verifChoice(L + 1))
		uid, gid := UID(verifNondetU32()), GID(verifNondetU32())
		start := inject()
		q, err := h.Symlink(tgt, nm, uid, gid)
		ops := verifOps(fs, start)
		ok := len(ops) == 1 && ops[0].op == "Symlink" && ops[0].node == n.id
		verifAssert(ok, "Symlink reaches the directory File")
		if ok {
			verifAssert(ops[0].s[0] == nm && ops[0].s[1] == tgt && ops[0].u[0] == uidOf(uid) && ops[0].u[1] == gidOf(gid), "Symlink arguments unchanged (target bytes arbitrary)")
		}
		if verifCheckErr(fs, err, "Symlink") {
			verifAssert(q == fs.lastQID, "Symlink QID unchanged")
		}
	case 13: // Link
		h, n := walkTo(ModeDirectory)
		th, tn := walkTo(ModeRegular)
		nm := nameSafe()
		start := inject()
		err := h.Link(th, nm)
		ops := verifOps(fs, start)
		verifAssert(len(ops) == 1 && ops[0].op == "Link" && ops[0].node == n.id && ops[0].other == tn.id && ops[0].s[0] == nm, "Link reaches the directory with the target's File and the name")
		verifCheckErr(fs, err, "Link")
	case 14: // Mknod
		h, n := walkTo(ModeDirectory)
		nm := nameSafe()
		mode, maj, min, uid, gid := FileMode(verifNondetU32()), verifNondetU32(), verifNondetU32(), UID(verifNondetU32()), GID(verifNondetU32())
		start := inject()
		q, err := h.Mknod(nm, mode, maj, min, uid, gid)
		ops := verifOps(fs, start)
		ok := len(ops) == 1 && ops[0].op == "Mknod" && ops[0].node == n.id
		verifAssert(ok, "Mknod reaches the directory File")
		if ok {
			u := ops[0].u
			verifAssert(ops[0].s[0] == nm && u[0] == uint64(mode) && u[1] == uint64(maj) && u[2] == uint64(min) && u[3] == uidOf(uid) && u[4] == gidOf(gid), "Mknod arguments unchanged")
		}
		if verifCheckErr(fs, err, "Mknod") {
			verifAssert(q == fs.lastQID, "Mknod QID unchanged")
		}
	case 15: // RenameAt
		h, n := walkTo(ModeDirectory)
		sameDir := verifChoice(2) == 1
		if !sameDir {
			walkName = "y"
		}
		dh, dn := walkTo(ModeDirectory)
		o, nw := nameSafe(), nameSafe()
		if sameDir {
			// renaming an entry onto itself is documented to succeed without a backend call
			verifAssume(o != nw)
		}
		start := inject()
		err := h.RenameAt(o, dh, nw)
		ops := verifOps(fs, start)
		verifAssert(len(ops) >= 1 && ops[0].op == "RenameAt" && ops[0].node == n.id && ops[0].other == dn.id && ops[0].s[0] == o && ops[0].s[1] == nw, "RenameAt reaches the old directory with both names and the new directory's File")
		verifCheckErr(fs, err, "RenameAt")
	case 16: // UnlinkAt
		h, n := walkTo(ModeDirectory)
		nm := nameSafe()
		fl := verifNondetU32()
		start := inject()
		err := h.UnlinkAt(nm, fl)
		ops := verifOps(fs, start)
		verifAssert(len(ops) == 1 && ops[0].op == "UnlinkAt" && ops[0].node == n.id && ops[0].s[0] == nm && ops[0].u[0] == uint64(fl), "UnlinkAt reaches the directory with the same name and flags")
		verifCheckErr(fs, err, "UnlinkAt")
	case 17: // Rename: arrives as RenameAt(parent, current name, ...)
		fs.walkMode = ModeRegular
		cur := nameSafe()
		_, f, err := root.Walk([]string{cur})
		verifAssume(err == nil)
		h := f.(*clientFile)
		walkName = "dir"
		verifAssume(cur != walkName)
		dh, dn := walkTo(ModeDirectory)
		nw := nameSafe()
		start := inject()
		err = h.Rename(dh, nw)
		ops := verifOps(fs, start)
		verifAssert(len(ops) >= 1 && ops[0].op == "RenameAt" && ops[0].node == rootNode.id && ops[0].s[0] == cur && ops[0].other == dn.id && ops[0].s[1] == nw, "Rename arrives as RenameAt on the parent under the entry's current name")
		verifCheckErr(fs, err, "Rename")
	case 18: // Remove: arrives as UnlinkAt(parent, current name, 0)
		fs.walkMode = ModeRegular
		cur := nameSafe()
		_, f, err := root.Walk([]string{cur})
		verifAssume(err == nil)
		h := f.(*clientFile)
		start := inject()
		err = h.Remove()
		ops := verifOps(fs, start)
		verifAssert(len(ops) == 1 && ops[0].op == "UnlinkAt" && ops[0].node == rootNode.id && ops[0].s[0] == cur, "Remove arrives as UnlinkAt on the parent under the entry's current name")
		verifCheckErr(fs, err, "Remove")
	case 19: // Walk: one backend walk per component
		nn := verifChoice(3)
		var names []string
		for i := 0; i < nn; i++ {
			names = append(names, nameSafe())
		}
		fs.walkMode = ModeDirectory
		fs.faults, fs.maxFault = 1, 1
		l.frames = nil
		start := len(fs.log)
		qids, nf, err := root.Walk(names)
		ops := verifOps(fs, start)
		if verifCheckErr(fs, err, "Walk") {
			verifAssert(len(qids) == nn && nf != nil, "Walk returns one QID per component")
			if nn == 0 {
				verifAssert(len(ops) == 1 && ops[0].op == "Walk" && ops[0].node == rootNode.id && len(ops[0].s) == 0, "zero-name walk clones the File")
			} else {
				verifAssert(len(ops) == 2*nn, "one Walk and one GetAttr per component")
				recv := rootNode.id
				for i := 0; i < nn && 2*i+1 < len(ops); i++ {
					w := ops[2*i]
					verifAssert(w.op == "Walk" && w.node == recv && len(w.s) == 1 && w.s[0] == names[i], "component walked from the File reached so far")
					recv = fs.nodes[len(fs.nodes)-nn+i].id
					verifAssert(ops[2*i+1].op == "GetAttr" && ops[2*i+1].node == recv, "attributes of the walked File fetched")
				}
			}
		}
	case 20: // WalkGetAttr
		nn := verifChoice(3)
		var names []string
		for i := 0; i < nn; i++ {
			names = append(names, nameSafe())
		}
		fs.walkMode = ModeDirectory
		fs.faults, fs.maxFault = 1, 1
		l.frames = nil
		_, nf, valid, attr, err := root.WalkGetAttr(names)
		if verifCheckErr(fs, err, "WalkGetAttr") {
			verifAssert(nf != nil && valid == fs.lastValid && attr == fs.lastAttr, "WalkGetAttr returns the attributes the backend reported")
		}
	case 21: // Close: exactly one backend Close of that File
		h, n := walkTo(ModeRegular)
		fs.faults = 0
		l.frames = nil
		err := h.Close()
		verifAssert(err == nil && n.closed == 1, "Close closes the File the handle was derived from")
	case 22: // GetXattr
		h, n := walkTo(ModeRegular)
		an := nameSafe()
		fs.xattr = verifNondetBytes(verifChoice(4))
		start := inject()
		val, err := h.GetXattr(an)
		ops := verifOps(fs, start)
		// (on success the server also clones the File for the attribute fid: a zero-name Walk)
		verifAssert(len(ops) >= 1 && ops[0].op == "GetXattr" && ops[0].node == n.id && ops[0].s[0] == an, "GetXattr reaches its File with the same name")
		verifAssert(len(ops) == 1 || (len(ops) == 2 && ops[1].op == "Walk" && len(ops[1].s) == 0), "GetXattr makes no other backend call than the clone for the attribute fid")
		if verifCheckErr(fs, err, "GetXattr") {
			verifAssert(verifBytesDiff(val, fs.xattr) == 0, "GetXattr value unchanged")
		}
	case 23: // ListXattrs
		h, n := walkTo(ModeRegular)
		nx := verifChoice(3)
		fs.xattrs = nil
		for i := 0; i < nx; i++ {
			s := verifNondetString(1 + verifChoice(2))
			for k := 0; k < len(s); k++ {
				verifAssume(s[k] != 0)
			}
			fs.xattrs = append(fs.xattrs, s)
		}
		start := inject()
		got, err := h.ListXattrs()
		ops := verifOps(fs, start)
		verifAssert(len(ops) >= 1 && ops[0].op == "ListXattrs" && ops[0].node == n.id, "ListXattrs reaches its File")
		verifAssert(len(ops) == 1 || (len(ops) == 2 && ops[1].op == "Walk" && len(ops[1].s) == 0), "ListXattrs makes no other backend call than the clone for the attribute fid")
		if verifCheckErr(fs, err, "ListXattrs") {
			verifAssert(len(got) == len(fs.xattrs), "ListXattrs returns every name")
			for i := 0; i < len(got) && i < len(fs.xattrs); i++ {
				verifAssert(got[i] == fs.xattrs[i], "ListXattrs names unchanged")
			}
		}
	case 24: // SetXattr / RemoveXattr fail locally
		h, _ := walkTo(ModeRegular)
		start := inject()
		e1 := h.SetXattr("a", []byte{1}, 0)
		e2 := h.RemoveXattr("a")
		verifAssert(e1 == linux.ENOSYS && e2 == linux.ENOSYS && len(l.frames) == 0 && len(fs.log) == start, "SetXattr/RemoveXattr fail locally with ENOSYS and no traffic")
		return
	case 25: // Attach with a name: walked one component at a time from the attached root
		nm := nameSafe()
		fs.walkMode = ModeDirectory
		start := inject()
		f2, err := c.Attach(nm)
		ops := verifOps(fs, start)
		if verifCheckErr(fs, err, "Attach") {
			verifAssert(f2 != nil && len(ops) == 4 && ops[0].op == "Attach" && ops[1].op == "GetAttr" && ops[2].op == "Walk" && ops[2].s[0] == nm && ops[3].op == "GetAttr", "Attach(name) attaches the root and walks the name")
		}
	default: // operation on a handle derived by Create reaches the created File
		h, _ := walkTo(ModeDirectory)
		nf, _, _, err := h.Create(nameSafe(), ReadWrite, 0644, 0, 0)
		verifAssume(err == nil)
		created := fs.nodes[len(fs.nodes)-1]
		start := inject()
		_, _, _, err = nf.GetAttr(AttrMaskAll)
		ops := verifOps(fs, start)
		verifAssert(len(ops) == 1 && ops[0].op == "GetAttr" && ops[0].node == created.id, "a handle derived by Create denotes the created File")
		verifCheckErr(fs, err, "GetAttr after Create")
	}
	verifReach("op-done")
	verifCheckTypes(l, v)
}

// VerifH_C03_Errno: the whole error alphabet through newErr (the function
// every handler uses to answer a backend error): the reply carries the errno
// found in the chain, else the errno denoted by the os.Err* sentinel, else EIO.
func VerifH_C03_Errno() {
	fs := &verifFS{errAlpha: 1}
	e := fs.anError()
	r := newErr(e)
	verifReach("errno-mapped")
	verifAssert(r.Error == fs.lastExpect, "newErr maps a backend error to the equivalent Linux errno")
	// and through a real reply frame back into the client-side error
	f, _, _ := specFrame(1, r)
	_, m, err := recv(verifLog, &verifSegReader{data: f}, 1<<16, msgDotLRegistry.get)
	verifAssert(err == nil && m.(*rlerror).Error == fs.lastExpect, "errno survives the wire")
}
