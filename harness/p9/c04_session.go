package p9

// C04 / C05 / C15: session state machine, File lifecycle, fault containment.
// One symbolic request from a family of representative states (DESIGN.md
// Appendix D), checked against an executable reference model of the
// 9P2000.L session rules.

const (
	verifKDir = iota
	verifKFile
	verifKSymlink
)

type verifFidM struct {
	fid      fid
	kind     int
	opened   bool
	mode     OpenFlags // low two bits of the open flags
	root     bool
	deleted  bool
	xattr    int // 0 none, 1 walk, 2 create
	xsize    uint64
	xwritten uint64
	node     *verifNode // backend File the fid denotes
}

type verifSess struct {
	fs      *verifFS
	s       *Server
	cs      *connState
	tab     []*verifFidM // reference fid table
	lastFid fid          // first fid named by the last request of verifStep
}

func (x *verifSess) get(f fid) *verifFidM {
	for _, m := range x.tab {
		if m.fid == f {
			return m
		}
	}
	return nil
}

func (x *verifSess) unbind(f fid) {
	for i, m := range x.tab {
		if m.fid == f {
			x.tab = append(x.tab[:i:i], x.tab[i+1:]...)
			return
		}
	}
}

func (x *verifSess) bind(m *verifFidM) {
	x.unbind(m.fid)
	x.tab = append(x.tab, m)
}

func (x *verifSess) do(m message) message {
	r := x.cs.handle(m)
	return r
}

func (x *verifSess) must(m message) {
	r := x.do(m)
	verifAssume(verifErrnoOf(r) == 0)
}

func (x *verifSess) lastNode() *verifNode { return x.fs.nodes[len(x.fs.nodes)-1] }

// verifBuildState builds representative state k with the backend never failing.
func verifBuildState(k int) *verifSess {
	fs := &verifFS{}
	s, cs := verifNewSession(fs, 7)
	x := &verifSess{fs: fs, s: s, cs: cs}
	if k == 0 {
		return x
	}
	x.must(&tattach{fid: 1, Auth: tauth{Authenticationfid: noFID}})
	x.bind(&verifFidM{fid: 1, kind: verifKDir, root: true, node: fs.nodes[0]})
	walk := func(nf fid, name string, mode FileMode, kind int) {
		fs.walkMode = mode
		x.must(&twalk{fid: 1, newFID: nf, Names: []string{name}})
		x.bind(&verifFidM{fid: nf, kind: kind, node: x.lastNode()})
	}
	open := func(f fid, flags OpenFlags) {
		x.must(&tlopen{fid: f, Flags: flags})
		m := x.get(f)
		m.opened, m.mode = true, flags&3
	}
	switch k {
	case 1:
	case 2:
		walk(2, "d", ModeDirectory, verifKDir)
	case 3:
		walk(3, "f", ModeRegular, verifKFile)
	case 4:
		walk(4, "l", ModeSymlink, verifKSymlink)
	case 5:
		walk(2, "d", ModeDirectory, verifKDir)
		open(2, ReadOnly)
	case 6, 7, 8:
		walk(3, "f", ModeRegular, verifKFile)
		hi := OpenFlags(verifNondetU32()) &^ 3
		open(3, hi|OpenFlags(k-6))
	case 9:
		walk(2, "d", ModeDirectory, verifKDir)
		x.must(&tlcreate{fid: 2, Name: "n", OpenFlags: ReadWrite, Permissions: 0644})
		x.bind(&verifFidM{fid: 2, kind: verifKFile, opened: true, mode: ReadWrite, node: x.lastNode()})
	case 10, 11:
		walk(3, "f", ModeRegular, verifKFile)
		fs.xattr = make([]byte, (k-10)*3)
		x.must(&txattrwalk{fid: 3, newFID: 5, Name: "user.a"})
		x.bind(&verifFidM{fid: 5, kind: verifKFile, xattr: 1, xsize: uint64((k - 10) * 3), node: x.get(3).node})
	case 12:
		walk(3, "f", ModeRegular, verifKFile)
		x.must(&txattrcreate{fid: 3, Name: "user.a", AttrSize: 3})
		x.must(&twrite{fid: 3, Offset: 0, Data: []byte{9}})
		m := x.get(3)
		m.xattr, m.xsize, m.xwritten = 2, 3, 1
	case 13:
		walk(2, "d", ModeDirectory, verifKDir)
		fs.walkMode = ModeRegular
		x.must(&twalk{fid: 2, newFID: 6, Names: []string{"f"}})
		x.bind(&verifFidM{fid: 6, kind: verifKFile, node: x.lastNode()})
		open(6, ReadWrite)
		x.must(&tunlinkat{Directory: 1, Name: "d"})
		x.get(2).deleted = true
		x.get(6).deleted = true
	case 14:
		walk(3, "f", ModeRegular, verifKFile)
		walk(7, "f", ModeRegular, verifKFile)
	case 15:
		// a fid two levels down reached by ONE multi-component walk (its parent
		// reference is an anonymous intermediate), plus a separate fid on the directory
		walk(2, "d", ModeDirectory, verifKDir)
		fs.walkMode = ModeDirectory
		x.must(&twalk{fid: 1, newFID: 6, Names: []string{"d", "f"}})
		x.bind(&verifFidM{fid: 6, kind: verifKDir, node: x.lastNode()})
	case 16:
		// the directory reached twice (walk and clone), the child walked from the clone
		walk(2, "d", ModeDirectory, verifKDir)
		x.must(&twalk{fid: 2, newFID: 4})
		x.bind(&verifFidM{fid: 4, kind: verifKDir, node: x.lastNode()})
		fs.walkMode = ModeRegular
		x.must(&twalk{fid: 4, newFID: 6, Names: []string{"f"}})
		x.bind(&verifFidM{fid: 6, kind: verifKFile, node: x.lastNode()})
	case 17:
		// a pending attribute write that is complete: its Tclunk reaches the backend (SetXattr)
		walk(3, "f", ModeRegular, verifKFile)
		x.must(&txattrcreate{fid: 3, Name: "user.a", AttrSize: 1})
		x.must(&twrite{fid: 3, Offset: 0, Data: []byte{9}})
		m := x.get(3)
		m.xattr, m.xsize, m.xwritten = 2, 1, 1
	}
	return x
}

const verifNStates = 18

// errno constants (Linux)
const (
	eBADF  = 9
	eINVAL = 22
	ePERM  = 1
	eISDIR = 21
	eBUSY  = 16
	eNOSYS = 38
	eNOENT = 2
)

type verifVerdict struct {
	must   []uint32 // mandated errnos that apply (reply must be one of them)
	refuse bool     // must be refused, the statement names no errno (xattr sub-protocol)
	silent bool     // the statement does not say: only invariants are checked
}

func (v *verifVerdict) add(e uint32) { v.must = append(v.must, e) }

// verifStep issues one symbolic request in session x, predicts it with the
// reference model and checks reply, backend reach and the fid table.
// It returns the request kind name and the reply.
func verifStep(x *verifSess, checkModel bool) (string, message) {
	fs := x.fs
	f1 := fid(verifNondetU32())
	x.lastFid = f1
	nameOf := func() string {
		switch verifChoice(4) {
		case 0:
			return "d"
		case 1:
			return "f"
		case 2:
			return "zz"
		}
		return verifNondetString(1)
	}
	var req message
	var v verifVerdict
	kind := ""
	m1 := x.get(f1)
	start := len(fs.log)
	nodesBefore := len(fs.nodes)
	bindNew := fid(0)
	bindKind := -1
	needBound := func(m *verifFidM) bool {
		if m == nil {
			v.add(eBADF)
			return false
		}
		return true
	}
	dirOp := func(m *verifFidM, name string) {
		if !verifSafeName(name) {
			v.add(eINVAL)
		}
		if needBound(m) {
			if m.kind == verifKDir && m.opened {
				v.add(eINVAL)
			}
			if m.deleted {
				v.add(eINVAL)
			}
			if m.kind != verifKDir || m.xattr != 0 {
				v.silent = true
			}
		}
	}
	k := verifChoice(26)
	if pk := verifParam("K", -1); pk >= 0 {
		verifAssume(k == pk)
	}
	switch k {
	case 0:
		kind = "Tauth"
		req = &tauth{Authenticationfid: f1, UserName: "u", AttachName: ""}
		v.add(eNOSYS)
	case 1:
		kind = "Tattach"
		afid := fid(verifNondetU32())
		req = &tattach{fid: f1, Auth: tauth{Authenticationfid: afid}}
		if afid != noFID {
			v.add(eINVAL)
		} else {
			bindNew, bindKind = f1, verifKDir
		}
	case 2, 3:
		kind = "Twalk"
		nf := fid(verifNondetU32())
		var names []string
		if verifChoice(2) == 1 {
			names = []string{nameOf()}
		}
		if k == 3 {
			kind = "Twalkgetattr"
			req = &twalkgetattr{fid: f1, newFID: nf, Names: names}
		} else {
			req = &twalk{fid: f1, newFID: nf, Names: names}
		}
		for _, n := range names {
			if !verifSafeName(n) {
				v.add(eINVAL)
			}
		}
		if needBound(m1) {
			if m1.opened && nf == f1 {
				v.add(eBUSY)
			}
			if len(names) > 0 {
				if m1.kind != verifKDir || m1.xattr != 0 {
					v.silent = true
				} else if m1.deleted {
					v.add(eNOENT)
				}
			} else if m1.xattr != 0 {
				v.silent = true
			}
			bindNew = nf
		}
	case 4:
		kind = "Tclunk"
		req = &tclunk{fid: f1}
		if needBound(m1) && m1.xattr == 2 {
			v.silent = true // completes (or fails to complete) a pending xattr write; the unbinding is what is mandated
		}
	case 5:
		kind = "Tremove"
		req = &tremove{fid: f1}
		if needBound(m1) {
			v.silent = true // the reply depends on root/deleted/backend; the unbinding is what is mandated
		}
	case 6:
		kind = "Tlopen"
		fl := OpenFlags(verifNondetU32())
		req = &tlopen{fid: f1, Flags: fl}
		if needBound(m1) {
			if m1.opened || m1.kind == verifKSymlink {
				v.add(eINVAL)
			}
			if m1.kind == verifKDir && fl&3 != ReadOnly {
				v.add(eISDIR)
			}
			if m1.deleted {
				v.add(eINVAL)
			}
			if m1.xattr != 0 {
				v.silent = true
			}
		}
	case 7, 8:
		kind = "Tlcreate"
		name := nameOf()
		t := tlcreate{fid: f1, Name: name, OpenFlags: OpenFlags(verifNondetU32()), Permissions: FileMode(verifNondetU32()), GID: GID(verifNondetU32())}
		if k == 8 {
			kind = "Tucreate"
			req = &tucreate{tlcreate: t, UID: UID(verifNondetU32())}
		} else {
			req = &t
		}
		dirOp(m1, name)
	case 9:
		kind = "Tsymlink"
		name := nameOf()
		req = &tsymlink{Directory: f1, Name: name, Target: "t"}
		dirOp(m1, name)
	case 10:
		kind = "Tmknod"
		name := nameOf()
		req = &tmknod{Directory: f1, Name: name, Mode: ModeNamedPipe}
		dirOp(m1, name)
	case 11:
		kind = "Tmkdir"
		name := nameOf()
		req = &tmkdir{Directory: f1, Name: name, Permissions: 0755}
		dirOp(m1, name)
	case 12:
		kind = "Tlink"
		name := nameOf()
		f2 := fid(verifNondetU32())
		req = &tlink{Directory: f1, Target: f2, Name: name}
		dirOp(m1, name)
		needBound(x.get(f2))
	case 13:
		kind = "Tunlinkat"
		name := nameOf()
		req = &tunlinkat{Directory: f1, Name: name, Flags: verifNondetU32()}
		dirOp(m1, name)
		v.silent = true // marks other fids deleted; table effect on f1 is none (checked below)
	case 14:
		kind = "Trenameat"
		o, n := nameOf(), nameOf()
		f2 := fid(verifNondetU32())
		req = &trenameat{OldDirectory: f1, OldName: o, NewDirectory: f2, NewName: n}
		dirOp(m1, o)
		if !verifSafeName(n) {
			v.add(eINVAL)
		}
		if m2 := x.get(f2); needBound(m2) {
			if m2.deleted {
				v.add(eINVAL)
			}
			if m2.kind != verifKDir || m2.xattr != 0 {
				v.silent = true
			}
		}
		// whether an admissible rename succeeds is the backend's decision
		// (e.g. a directory cannot be moved into itself)
		v.silent = v.silent || len(v.must) == 0
	case 15:
		kind = "Trename"
		n := nameOf()
		f2 := fid(verifNondetU32())
		req = &trename{fid: f1, Directory: f2, Name: n}
		if !verifSafeName(n) {
			v.add(eINVAL)
		}
		needBound(m1)
		needBound(x.get(f2))
		v.silent = v.silent || len(v.must) == 0
	case 16:
		kind = "Treadlink"
		req = &treadlink{fid: f1}
		if needBound(m1) && (m1.kind != verifKSymlink || m1.deleted || m1.xattr != 0) {
			v.silent = true
		}
	case 17:
		kind = "Tread"
		off, cnt := verifNondetU64(), verifNondetU32()
		verifAssume(cnt <= 8)
		req = &tread{fid: f1, Offset: off, Count: cnt}
		if needBound(m1) {
			switch m1.xattr {
			case 0:
				if !m1.opened {
					v.add(eINVAL)
				} else if m1.mode == WriteOnly {
					v.add(ePERM)
				}
			case 1:
				// xattr read sub-protocol: offset+count within the value; count 0 only for an empty value
				if cnt == 0 && m1.xsize != 0 {
					v.refuse = true
				}
				if cnt != 0 && (off+uint64(cnt) > m1.xsize || off+uint64(cnt) < off) {
					v.refuse = true
				}
			default:
				v.refuse = true
			}
		}
	case 18:
		kind = "Twrite"
		off := verifNondetU64()
		data := verifNondetBytes(verifChoice(3))
		req = &twrite{fid: f1, Offset: off, Data: data}
		if needBound(m1) {
			switch m1.xattr {
			case 0:
				if !m1.opened {
					v.add(eINVAL)
				} else if m1.mode == ReadOnly {
					v.add(ePERM)
				}
			case 2:
				// append-only within attr_size
				if off != m1.xwritten || off+uint64(len(data)) > m1.xsize {
					v.refuse = true
				}
			default:
				v.refuse = true
			}
		}
	case 19:
		kind = "Tgetattr"
		var am AttrMask
		verifHavoc(&am, 0, 0, 0)
		req = &tgetattr{fid: f1, AttrMask: am}
		if needBound(m1) && m1.xattr != 0 {
			v.silent = true
		}
	case 20:
		kind = "Tsetattr"
		req = &tsetattr{fid: f1}
		if needBound(m1) {
			if m1.deleted {
				v.add(eINVAL)
			}
			if m1.xattr != 0 {
				v.silent = true
			}
		}
	case 21:
		kind = "Txattrwalk"
		nf := fid(verifNondetU32())
		req = &txattrwalk{fid: f1, newFID: nf, Name: "user.a"}
		if needBound(m1) {
			if m1.deleted {
				v.add(eINVAL)
			}
			if m1.xattr != 0 {
				v.silent = true
			}
			bindNew = nf
		}
	case 22:
		kind = "Txattrcreate"
		req = &txattrcreate{fid: f1, Name: "user.a", AttrSize: uint64(verifNondetU8()), Flags: verifNondetU32()}
		if needBound(m1) {
			if m1.deleted {
				v.add(eINVAL)
			}
			v.silent = v.silent || len(v.must) == 0
		}
	case 23:
		kind = "Treaddir"
		cnt := verifNondetU32()
		req = &treaddir{Directory: f1, Offset: verifNondetU64(), Count: cnt}
		if needBound(m1) {
			if !m1.opened && m1.xattr == 0 {
				v.add(eINVAL)
			}
			if m1.deleted {
				v.add(eINVAL)
			}
			if m1.kind != verifKDir || m1.xattr != 0 {
				v.silent = true
			}
		}
	case 24:
		kind = "Tfsync"
		req = &tfsync{fid: f1}
		if needBound(m1) {
			if !m1.opened && m1.xattr == 0 {
				v.add(eINVAL)
			}
			if m1.xattr != 0 {
				v.silent = true
			}
		}
	default:
		if verifChoice(2) == 0 {
			kind = "Tstatfs"
			req = &tstatfs{fid: f1}
		} else {
			kind = "Tlock"
			req = &tlock{fid: f1, Type: LockType(verifNondetU8()), Client: "c"}
		}
		needBound(m1)
	}

	// fids whose binding is inspected afterwards
	universe := []fid{1, 2, 3, 4, 5, 6, 7, f1}
	if bindNew != 0 || k == 2 || k == 3 || k == 21 || k == 1 {
		universe = append(universe, bindNew)
	}
	before := make([]bool, len(universe))
	for i, f := range universe {
		_, before[i] = x.cs.fids[f]
	}

	verifOut("request", kind, uint64(f1))
	reply := x.do(req)
	errno := verifErrnoOf(reply)
	verifOut("step", kind, uint64(f1), errno, len(v.must), v.silent)
	if !checkModel {
		return kind, reply
	}

	// ---- reply against the model ----
	if len(v.must) > 0 {
		verifReach("refused")
		in := false
		for _, e := range v.must {
			if errno == e {
				in = true
			}
		}
		verifAssert(in, kind+": refused with a mandated errno")
		if k != 4 && k != 5 {
			verifAssert(len(fs.log) == start && len(fs.nodes) == nodesBefore, kind+": a refused request does not reach the backend")
		}
	} else if v.refuse {
		verifReach("refused-subprotocol")
		verifAssert(errno != 0, kind+": refused by the xattr sub-protocol")
		verifAssert(len(fs.log) == start, kind+": a refused request does not reach the backend")
	} else if !v.silent {
		verifReach("accepted")
		verifAssert(errno == 0, kind+": accepted in this state")
	} else {
		verifReach("silent")
	}

	// ---- table effects ----
	for i, f := range universe {
		_, now := x.cs.fids[f]
		want := before[i]
		switch {
		case (k == 4 || k == 5) && f == f1:
			want = false // Tclunk/Tremove always unbind
		case f == bindNew && errno == 0 && (k == 1 || k == 2 || k == 3 || k == 21):
			want = true // bound iff success
		}
		verifAssert(now == want, kind+": fid table changes exactly as the session model says")
	}
	if (k == 7 || k == 8) && errno == 0 {
		r, ok := x.cs.fids[f1]
		verifAssert(ok && r.opened && r.file == File(x.lastNode()), "Tlcreate rebinds its fid to the created, already open file")
	}
	if k == 6 && errno == 0 {
		r := x.cs.fids[f1]
		verifAssert(r.opened, "a successful Tlopen marks the fid opened")
	}
	_ = bindKind
	return kind, reply
}

// VerifH_C04_Step: every (representative state, request) edge.
func VerifH_C04_Step() {
	st := verifChoice(verifNStates)
	if ps := verifParam("ST", -1); ps >= 0 {
		verifAssume(st == ps)
	}
	x := verifBuildState(st)
	verifStep(x, true)
	verifReach("stepped")
}
