package p9

// C05: File lifecycle; C15: fault containment. Both reuse the representative
// states and the symbolic request generator of C04.

type verifNopCloser struct{ closed int }

func (c *verifNopCloser) Read(p []byte) (int, error)  { return 0, verifErrWrite }
func (c *verifNopCloser) Write(p []byte) (int, error) { return len(p), nil }
func (c *verifNopCloser) Close() error                { c.closed++; return nil }

// verifCheckLive: no File is closed while a fid still maps to it, none was used after Close.
// verifCheckRefs: reference-count invariant of the fid table at quiescence
// (no request in flight): every fidRef reachable from the table through
// parent links is held exactly by the fids mapping to it plus the reachable
// fidRefs whose parent it is. One missing or surplus reference shows here
// before any Close goes wrong.
func verifCheckRefs(x *verifSess, when string) {
	var all []*fidRef
	seen := func(r *fidRef) bool {
		for _, o := range all {
			if o == r {
				return true
			}
		}
		return false
	}
	for _, ref := range x.cs.fids {
		for r := ref; r != nil && !seen(r); r = r.parent {
			all = append(all, r)
		}
	}
	for _, r := range all {
		want := int64(0)
		for _, ref := range x.cs.fids {
			if ref == r {
				want++
			}
		}
		for _, o := range all {
			if o.parent == r {
				want++
			}
		}
		verifAssert(r.refs == want, "reference count = fids bound to the File + children holding it as parent ("+when+")")
	}
}

func verifCheckLive(x *verifSess, when string) {
	verifCheckRefs(x, when)
	for _, ref := range x.cs.fids {
		if n, ok := ref.file.(*verifNode); ok {
			verifAssert(n.closed == 0, "no File is closed while a fid still maps to it ("+when+")")
		}
	}
	for _, n := range x.fs.nodes {
		verifAssert(!n.uac, "no method is invoked on a File after its Close ("+when+")")
		verifAssert(n.closed <= 1, "no File is closed twice ("+when+")")
	}
}

func verifCheckAllClosed(x *verifSess) {
	for _, n := range x.fs.nodes {
		verifAssert(n.closed == 1, "after the connection ends every File handed out was closed exactly once")
		verifAssert(!n.uac, "no method is invoked on a File after its Close (after stop)")
	}
}

// VerifH_C05_Lifecycle: state, 1..2 symbolic requests with backend errors
// injected at any backend call (Close included), then the connection ends.
func VerifH_C05_Lifecycle() {
	st := verifChoice(verifNStates)
	if ps := verifParam("ST", -1); ps >= 0 {
		verifAssume(st == ps)
	}
	x := verifBuildState(st)
	verifCheckLive(x, "after setup")
	x.fs.faults, x.fs.maxFault, x.fs.faultClose = verifParam("FAULTS", 1), 1, true
	depth := 1 + verifChoice(verifParam("D", 1))
	for i := 0; i < depth; i++ {
		verifStep(x, false)
		verifCheckLive(x, "after a request")
	}
	// a clean disconnect between requests
	t, r := &verifNopCloser{}, &verifNopCloser{}
	x.cs.t, x.cs.r = t, r
	x.fs.faults = 0
	x.cs.stop()
	verifReach("stopped")
	verifAssert(t.closed == 1 && r.closed == 1, "transport closed on stop")
	verifCheckAllClosed(x)
}

// VerifH_C15_Faults: an error or a panic injected at any backend call of one
// symbolic request; the request is answered with Rlerror, locks are released,
// the same paths keep being served from this and another connection.
func VerifH_C15_Faults() {
	st := verifChoice(verifNStates)
	if ps := verifParam("ST", -1); ps >= 0 {
		verifAssume(st == ps)
	}
	x := verifBuildState(st)
	fs := x.fs
	var universe = []fid{1, 2, 3, 4, 5, 6, 7}
	before := make([]*fidRef, len(universe))
	for i, f := range universe {
		before[i] = x.cs.fids[f]
	}
	nodesBefore := len(fs.nodes)
	fs.faults, fs.maxFault, fs.faultClose = 2, 1, false
	kind, reply := verifStep(x, false)
	fs.faults = 0
	injected := fs.nfaults > 0
	panicked := false
	for _, c := range fs.log {
		if c.fault == 2 {
			panicked = true
		}
	}
	if injected {
		errno := verifErrnoOf(reply)
		if panicked {
			verifReach("backend-panic")
			verifAssert(errno == linux_EFAULT, kind+": a backend panic is answered with Rlerror(EFAULT)")
		} else {
			verifReach("backend-error")
			verifAssert(errno == fs.lastExpect, kind+": a backend error is answered with its errno")
			// fid table as if the request had not run (Tclunk/Tremove still unbind)
			for i, f := range universe {
				now := x.cs.fids[f]
				if kind == "Tclunk" || kind == "Tremove" {
					if f == x.lastFid {
						verifAssert(now == nil, kind+": the fid is unbound even though the backend failed")
					} else {
						verifAssert(now == before[i], kind+": after a backend error only the clunked fid is unbound")
					}
				} else {
					verifAssert(now == before[i], kind+": after a backend error the fid table is as if the request had not run")
				}
			}
			// any File obtained during the failed request has been closed
			for i := nodesBefore; i < len(fs.nodes); i++ {
				verifAssert(fs.nodes[i].closed == 1, kind+": a File obtained during the failed request is closed")
			}
		}
	} else {
		verifReach("no-fault")
	}
	// locks released: the same server keeps serving this and another connection
	// on the same paths (a lock left held would dead-lock here)
	cs2 := verifNewConn(x.s)
	r := cs2.handle(&tversion{MSize: 8192, Version: "9P2000.L"})
	_, ok := r.(*rversion)
	verifAssert(ok, "another connection negotiates")
	fs.walkMode = ModeDirectory
	r = cs2.handle(&tattach{fid: 1, Auth: tauth{Authenticationfid: noFID}})
	verifAssert(verifErrnoOf(r) == 0, "another connection attaches after the fault")
	r = cs2.handle(&twalk{fid: 1, newFID: 2, Names: []string{"d"}})
	verifAssert(verifErrnoOf(r) == 0, "another connection walks the same path after the fault")
	r = cs2.handle(&tmkdir{Directory: 1, Name: "after", Permissions: 0755})
	verifAssert(verifErrnoOf(r) == 0, "write-class request on the root is served after the fault")
	r = cs2.handle(&trenameat{OldDirectory: 1, OldName: "q1", NewDirectory: 1, NewName: "q2"})
	verifAssert(verifErrnoOf(r) == 0, "global-class request is served after the fault")
	if _, bound := x.cs.fids[1]; bound {
		r = x.cs.handle(&tgetattr{fid: 1, AttrMask: AttrMaskAll})
		verifAssert(verifErrnoOf(r) == 0, "the faulting connection keeps being served")
	}
	verifReach("served-after")
}

// VerifH_C05_Cut: the connection ends at an arbitrary byte of a session.
func VerifH_C05_Cut() {
	fs := &verifFS{walkMode: ModeDirectory}
	s := NewServer(fs)
	cs := verifNewConn(s)
	msgs := []message{
		&tversion{MSize: 8192, Version: "9P2000.L"},
		&tattach{fid: 1, Auth: tauth{Authenticationfid: noFID}},
		&twalk{fid: 1, newFID: 2, Names: []string{"d"}},
		&tlopen{fid: 2, Flags: ReadOnly},
		&twalk{fid: 2, newFID: 3, Names: []string{"e", "f"}},
		&tclunk{fid: 1},
	}
	var stream []byte
	var ends []int
	for i, m := range msgs {
		f, _, _ := specFrame(uint16(i+1), m)
		stream = append(stream, f...)
		ends = append(ends, len(stream))
	}
	cut := verifChoice(len(stream) + 1)
	complete := 0
	for _, e := range ends {
		if e <= cut {
			complete++
		}
	}
	w := &verifRecWriter{keep: true}
	t := &verifClosableReader{verifSegReader: verifSegReader{data: stream[:cut]}}
	cs.t, cs.r = t, w
	cs.handleRequests()
	verifReach("connection-ended")
	verifAssert(cs.recvShutdown, "end of stream shuts the receive side down")
	// replies: one per complete frame, none for the cut frame
	replies, pos := 0, 0
	for pos+7 <= len(w.data) {
		replies++
		pos += int(verifLE32(w.data[pos : pos+4]))
	}
	verifAssert(replies == complete && pos == len(w.data), "exactly the complete frames were handled and answered")
	// the receiver goroutines that were spawned exit without touching the transport
	readsBefore := t.reads
	verifRunSpawned()
	verifAssert(t.reads == readsBefore, "spawned receivers exit after shutdown without reading")
	cs.stop()
	verifAssert(t.closed == 1, "transport closed")
	for _, n := range fs.nodes {
		verifAssert(n.closed == 1 && !n.uac, "every File closed exactly once when the connection ends mid-session")
	}
}

type verifClosableReader struct {
	verifSegReader
	closed int
}

func (r *verifClosableReader) Close() error { r.closed++; return nil }
