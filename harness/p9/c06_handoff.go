package p9

import (
	"io"
	"sync/atomic"
)

// verifHandoffReader serves one request frame. Any Read after the frame has
// been consumed can only come from ANOTHER receiver (the goroutine that read
// the frame is busy handling it); the first such Read completes the in-flight
// request that a Tflush may be waiting for.
type verifHandoffReader struct {
	data   []byte
	pos    int
	later  int32
	onIdle func()
}

func (r *verifHandoffReader) Read(p []byte) (int, error) {
	if r.pos >= len(r.data) {
		if atomic.AddInt32(&r.later, 1) == 1 && r.onIdle != nil {
			r.onIdle()
		}
		return 0, io.EOF
	}
	n := copy(p, r.data[r.pos:])
	r.pos += n
	return n, nil
}
func (r *verifHandoffReader) Close() error { return nil }

// VerifH_C06_Handoff: "requests are served concurrently". One request arrives
// on a connection with no idle receiver while another request (tag 5) is
// executing. Whatever the request is - a Tflush of the executing request, which
// blocks by design, or a request that enters the backend - the receive side must
// have been handed to another goroutine by the time the handler blocks or the
// backend is entered: the flushed request can then complete (here: as soon as
// somebody else receives) and the Tflush is answered instead of stalling the
// connection for good.
func VerifH_C06_Handoff() {
	fs := &verifFS{}
	_, cs := verifNewSession(fs, 0)
	verifAssume(verifErrnoOf(cs.handle(&tattach{fid: 1, Auth: tauth{Authenticationfid: noFID}})) == 0)
	const busy = 5
	verifAssume(cs.StartTag(busy))
	var m message
	switch verifChoice(5) {
	case 0:
		m = &tflush{OldTag: busy}
		verifReach("flush-of-executing-request")
	case 1:
		m = &tgetattr{fid: 1, AttrMask: AttrMaskAll}
		verifReach("backend-request")
	case 2:
		m = &twalk{fid: 1, newFID: 2, Names: []string{"a"}}
		verifReach("backend-request")
	case 3:
		m = &tstatfs{fid: 1}
		verifReach("backend-request")
	default:
		m = &tflush{OldTag: 77}
		verifReach("flush-of-idle-tag")
	}
	r := &verifHandoffReader{data: verifFrame(9, m)}
	w := &verifRecWriter{keep: true}
	cs.t, cs.r = r, w
	cs.recvIdle = 0
	r.onIdle = func() { cs.ClearTag(busy) }
	fs.onEnter = func() {
		verifRunSpawned()
		verifAssert(atomic.LoadInt32(&r.later) >= 1, "while a request is inside the backend another goroutine is receiving")
	}
	ok := cs.handleRequest()
	fs.onEnter = nil
	verifAssert(ok, "the connection stays up")
	verifAssert(len(w.data) >= 7, "the request is answered")
	verifReach("answered")
}
