package p9

// C07 / C06 / C14 / C16: schedule-layer harnesses. Threads are declared with
// verifThread; the engine runs each alone (phase A) and decides every
// interleaving with the solver (phase B). Natively verifThread runs its
// function in place, so these harnesses also execute sequentially.

type verifFidSet struct {
	dir, file, openFile, openDir, other, otherFile fid
	newBase                                        fid
}

// verifSchedSetup: one server, two connections, tree /d/f, /e/g, with two
// disjoint fid sets per connection on the same paths.
func verifSchedSetup() (*verifFS, *Server, *connState, *connState, verifFidSet, verifFidSet) {
	fs := &verifFS{sched: false}
	s := NewServer(fs)
	mk := func() *connState {
		cs := verifNewConn(s)
		r := cs.handle(&tversion{MSize: 8192, Version: "9P2000.L"})
		_, ok := r.(*rversion)
		verifAssume(ok)
		verifAssume(verifErrnoOf(cs.handle(&tattach{fid: 1, Auth: tauth{Authenticationfid: noFID}})) == 0)
		return cs
	}
	cs1, cs2 := mk(), mk()
	bind := func(cs *connState, base fid) verifFidSet {
		w := func(nf fid, names []string, mode FileMode) {
			fs.walkMode = mode
			verifAssume(verifErrnoOf(cs.handle(&twalk{fid: 1, newFID: nf, Names: names[:1]})) == 0)
			if len(names) == 2 {
				// second component from the fid just bound, in place is not allowed on opened fids only
				fs.walkMode = mode
				verifAssume(verifErrnoOf(cs.handle(&twalk{fid: nf, newFID: nf, Names: names[1:]})) == 0)
			}
		}
		set := verifFidSet{dir: base + 1, file: base + 2, openFile: base + 3, openDir: base + 4, other: base + 5, otherFile: base + 6, newBase: base + 20}
		fs.walkMode = ModeDirectory
		verifAssume(verifErrnoOf(cs.handle(&twalk{fid: 1, newFID: set.dir, Names: []string{"d"}})) == 0)
		fs.walkMode = ModeRegular
		verifAssume(verifErrnoOf(cs.handle(&twalk{fid: set.dir, newFID: set.file, Names: []string{"f"}})) == 0)
		verifAssume(verifErrnoOf(cs.handle(&twalk{fid: set.dir, newFID: set.openFile, Names: []string{"f"}})) == 0)
		verifAssume(verifErrnoOf(cs.handle(&tlopen{fid: set.openFile, Flags: ReadWrite})) == 0)
		fs.walkMode = ModeDirectory
		verifAssume(verifErrnoOf(cs.handle(&twalk{fid: 1, newFID: set.openDir, Names: []string{"d"}})) == 0)
		verifAssume(verifErrnoOf(cs.handle(&tlopen{fid: set.openDir, Flags: ReadOnly})) == 0)
		verifAssume(verifErrnoOf(cs.handle(&twalk{fid: 1, newFID: set.other, Names: []string{"e"}})) == 0)
		fs.walkMode = ModeRegular
		verifAssume(verifErrnoOf(cs.handle(&twalk{fid: set.other, newFID: set.otherFile, Names: []string{"g"}})) == 0)
		_ = w
		return set
	}
	if verifTinySetup {
		// connection 1 works on the root directory (its attach fid) and holds /e;
		// connection 2 holds one fid, on /f, and has given up its attach fid: the
		// parent chain of that fid is as short as it gets
		set := verifFidSet{dir: 1, file: 102, openFile: 103, openDir: 104, other: 105, otherFile: 106, newBase: 120}
		fs.walkMode = ModeDirectory
		verifAssume(verifErrnoOf(cs1.handle(&twalk{fid: 1, newFID: set.other, Names: []string{"e"}})) == 0)
		fs.walkMode = ModeRegular
		verifAssume(verifErrnoOf(cs2.handle(&twalk{fid: 1, newFID: set.file, Names: []string{"f"}})) == 0)
		verifAssume(verifErrnoOf(cs2.handle(&tclunk{fid: 1})) == 0)
		fs.log = nil
		return fs, s, cs1, cs2, set, set
	}
	a := bind(cs1, 100)
	b := a
	if !verifLeanSetup {
		b = bind(cs1, 200)
	}
	bind(cs2, 100)
	if !verifLeanSetup {
		bind(cs2, 200)
	}
	fs.log = nil
	return fs, s, cs1, cs2, a, b
}

// verifTinySetup: the smallest sessions in which a rename on one connection
// meets the release of the last fid on the renamed entry on another one.
var verifTinySetup bool

// verifLeanSetup: one fid set per connection (C16 pairs across connections).
var verifLeanSetup bool

const (
	opWalkFrom = iota
	opClone
	opOpen
	opRead
	opWrite
	opGetAttr
	opReaddir
	opFSync
	opCreate
	opMkdir
	opSymlink
	opLink
	opMknod
	opUnlinkAt
	opSetAttr
	opRenameAt
	opRemove
	opRename
	opStatFS
	verifNOps
)

var verifOpNames = []string{"walk-from", "clone", "Open", "ReadAt", "WriteAt", "GetAttr", "Readdir", "FSync", "Create", "Mkdir", "Symlink", "Link", "Mknod", "UnlinkAt", "SetAttr", "RenameAt", "Remove", "Rename", "StatFS"}

// what kind of path the operation is issued on: 0 dir, 1 file, 2 either
func verifOpNeeds(op int) int {
	switch op {
	case opWalkFrom, opReaddir, opCreate, opMkdir, opSymlink, opLink, opMknod, opUnlinkAt, opRenameAt:
		return 0
	case opOpen, opRead, opWrite, opFSync, opRemove, opRename:
		return 1
	}
	return 2
}

// verifOpMsg builds the request for op on the fid set fs, on the directory
// (onFile=false) or on the file.
func verifOpMsg(op int, f verifFidSet, onFile bool, alt bool) message {
	dir, file := f.dir, f.file
	if alt {
		dir, file = f.other, f.otherFile
	}
	any := dir
	if onFile {
		any = file
	}
	switch op {
	case opWalkFrom:
		return &twalk{fid: dir, newFID: f.newBase, Names: []string{"f"}}
	case opClone:
		return &twalk{fid: any, newFID: f.newBase + 1}
	case opOpen:
		return &tlopen{fid: file, Flags: ReadOnly}
	case opRead:
		return &tread{fid: f.openFile, Offset: 0, Count: 4}
	case opWrite:
		return &twrite{fid: f.openFile, Offset: 0, Data: []byte{1}}
	case opGetAttr:
		return &tgetattr{fid: any, AttrMask: AttrMaskAll}
	case opReaddir:
		return &treaddir{Directory: f.openDir, Offset: 0, Count: 64}
	case opFSync:
		return &tfsync{fid: f.openFile}
	case opCreate:
		return &tlcreate{fid: dir, Name: "n", OpenFlags: ReadWrite, Permissions: 0644}
	case opMkdir:
		return &tmkdir{Directory: dir, Name: "m", Permissions: 0755}
	case opSymlink:
		return &tsymlink{Directory: dir, Name: "s", Target: "t"}
	case opLink:
		return &tlink{Directory: dir, Target: file, Name: "l"}
	case opMknod:
		return &tmknod{Directory: dir, Name: "k", Mode: ModeNamedPipe}
	case opUnlinkAt:
		return &tunlinkat{Directory: dir, Name: "f"}
	case opSetAttr:
		return &tsetattr{fid: any, Valid: SetAttrMask{Size: true}}
	case opRenameAt:
		return &trenameat{OldDirectory: dir, OldName: "f", NewDirectory: dir, NewName: "r"}
	case opRemove:
		return &tremove{fid: file}
	case opRename:
		return &trename{fid: file, Directory: dir, Name: "r2"}
	}
	return &tstatfs{fid: any}
}

// VerifH_C07_Pair: one ordered pair of operations in one path relation per
// scenario (verifParam "scenario"), two threads.
//
//	relation 0: same path, two different fids of one connection
//	relation 1: A on the directory /d, B on its child /d/f (or the other way round for file ops)
//	relation 2: unrelated paths (/d or /d/f  vs  /e or /e/g)
//	relation 3: same path from two connections
func VerifH_C07_Pair() {
	sc := verifParam("scenario", 0)
	opA := sc % verifNOps
	opB := (sc / verifNOps) % verifNOps
	rel := sc / (verifNOps * verifNOps)
	fs, _, cs1, cs2, a, b := verifSchedSetup()
	needA, needB := verifOpNeeds(opA), verifOpNeeds(opB)
	aOnFile, bOnFile, bAlt := false, false, false
	csB := cs1
	switch rel {
	case 0, 3:
		// same path: both on the directory or both on the file
		if needA == 1 || needB == 1 {
			if needA == 0 || needB == 0 {
				verifReach("skip")
				return
			}
			aOnFile, bOnFile = true, true
		}
		if rel == 3 {
			csB = cs2
		}
	case 1:
		// parent / child
		if needA == 1 && needB == 1 {
			verifReach("skip")
			return
		}
		if needA == 1 {
			aOnFile = true
			if needB == 1 {
				verifReach("skip")
				return
			}
		} else {
			if needB == 0 {
				verifReach("skip")
				return
			}
			bOnFile = true
		}
	default:
		aOnFile, bOnFile, bAlt = needA == 1, needB == 1, true
	}
	ma := verifOpMsg(opA, a, aOnFile, false)
	mb := verifOpMsg(opB, b, bOnFile, bAlt)
	fs.sched = true
	verifThread("A", func() {
		cs1.handle(ma)
	})
	verifThread("B", func() {
		csB.handle(mb)
	})
	verifReach("pair-declared")
}

// VerifH_C07_OpenTwice: two Tlopen on the same File (two requests naming one
// fid is the only way to open one File twice).
func VerifH_C07_OpenTwice() {
	fs, _, cs1, _, a, _ := verifSchedSetup()
	fs.sched = true
	verifThread("A", func() {
		cs1.handle(&tlopen{fid: a.file, Flags: ReadOnly})
	})
	verifThread("B", func() {
		cs1.handle(&tlopen{fid: a.file, Flags: ReadOnly})
	})
	verifReach("pair-declared")
}

// ---- request-level threads: C14 (flush ordering), C06 (one reply, contiguous frames) ----

// verifThreadReader gives every thread its own request stream (the receive
// side is serialised by recvMu in the real code; which goroutine picks which
// frame is not what these harnesses are about).
type verifThreadReader struct {
	streams map[string]*verifSegReader
}

func (r *verifThreadReader) Read(p []byte) (int, error) {
	return r.streams[verifThreadName()].Read(p)
}
func (r *verifThreadReader) Close() error { return nil }

// verifEventWriter turns the writes of reply frames into events:
// tx-begin(tag, type) on the first write of a frame, tx-end(tag, type) on the
// write that completes it.
type verifEventWriter struct {
	st map[string]*verifTxState
}

type verifTxState struct {
	left     int
	tag, typ int
	frames   int
}

func (w *verifEventWriter) Write(p []byte) (int, error) {
	st := w.st[verifThreadName()]
	if st == nil {
		return len(p), nil
	}
	if st.left == 0 && len(p) >= 7 {
		st.left = int(verifLE32(p[0:4]))
		st.typ = int(p[4])
		st.tag = int(uint16(p[5]) | uint16(p[6])<<8)
		st.frames++
		verifEvent("tx-begin", st.tag, st.typ)
	}
	st.left -= len(p)
	if st.left <= 0 {
		st.left = 0
		verifEvent("tx-end", st.tag, st.typ)
	}
	return len(p), nil
}
func (w *verifEventWriter) Close() error { return nil }

func verifReqConn(frames map[string][]byte) (*verifFS, *connState, verifFidSet) {
	fs, _, cs1, _, a, _ := verifSchedSetup()
	r := &verifThreadReader{streams: map[string]*verifSegReader{}}
	w := &verifEventWriter{st: map[string]*verifTxState{}}
	for name, f := range frames {
		r.streams[name] = &verifSegReader{data: f}
		w.st[name] = &verifTxState{}
	}
	cs1.t, cs1.r = r, w
	cs1.recvIdle = 1 // an idle receiver exists: handleRequest does not spawn another one
	return fs, cs1, a
}

func verifFrame(tg uint16, m message) []byte {
	f, _, _ := specFrame(tg, m)
	return f
}

// VerifH_C14_Flush: request A (held in the backend) and a Tflush B, per scenario:
//
//	A in {Tread, Twrite, Twalk 2 components, Trenameat};
//	B flushes {A's tag, an idle tag, its own tag}; optional second flush C naming A or B.
func VerifH_C14_Flush() {
	sc := verifParam("scenario", 0)
	kindA := sc % 4
	target := (sc / 4) % 3
	withC := (sc / 12) % 3 // 0 none, 1 C flushes A, 2 C flushes B
	var a verifFidSet
	{
		_, _, _, _, aa, _ := verifSchedSetup()
		a = aa
	}
	var ma message
	switch kindA {
	case 0:
		ma = &tread{fid: a.openFile, Offset: 0, Count: 4}
	case 1:
		ma = &twrite{fid: a.openFile, Offset: 0, Data: []byte{7}}
	case 2:
		ma = &twalk{fid: 1, newFID: a.newBase, Names: []string{"d", "f"}}
	default:
		ma = &trenameat{OldDirectory: a.dir, OldName: "f", NewDirectory: a.dir, NewName: "r"}
	}
	const tagA, tagB, tagC, idle = 1, 2, 3, 9
	old := uint16(tagA)
	oldName := "A"
	switch target {
	case 1:
		old, oldName = idle, "idle"
	case 2:
		old, oldName = tagB, "B"
	}
	frames := map[string][]byte{
		"A": verifFrame(tagA, ma),
		"B": verifFrame(tagB, &tflush{OldTag: tag(old)}),
	}
	if withC == 1 {
		frames["C"] = verifFrame(tagC, &tflush{OldTag: tagA})
	} else if withC == 2 {
		frames["C"] = verifFrame(tagC, &tflush{OldTag: tagB})
	}
	fs, cs, _ := verifReqConn(frames)
	fs.sched = true
	verifThread("A", func() { cs.handleRequest() })
	verifThread("B", func() {
		verifEvent("flushes", tagB, oldName)
		cs.handleRequest()
	})
	if withC == 1 {
		verifThread("C", func() {
			verifEvent("flushes", tagC, "A")
			cs.handleRequest()
		})
	} else if withC == 2 {
		verifThread("C", func() {
			verifEvent("flushes", tagC, "B")
			cs.handleRequest()
		})
	}
	verifReach("flush-declared")
}

// VerifH_C06_Replies: two or three ordinary requests answered concurrently on
// one connection: frames are contiguous, no dead-lock, and (per trace) exactly
// one reply with the request's tag.
func VerifH_C06_Replies() {
	sc := verifParam("scenario", 0)
	_, _, _, _, a, b := verifSchedSetup()
	msgs := []message{
		&tgetattr{fid: a.dir, AttrMask: AttrMaskAll},
		&tread{fid: b.openFile, Offset: 0, Count: 4},
		&tmkdir{Directory: b.other, Name: "x", Permissions: 0755},
		&tclunk{fid: 99999},
		&tstatfs{fid: a.file},
	}
	i, j := sc%len(msgs), (sc/len(msgs))%len(msgs)
	frames := map[string][]byte{"A": verifFrame(1, msgs[i]), "B": verifFrame(2, msgs[j])}
	fs, cs, _ := verifReqConn(frames)
	fs.sched = true
	verifThread("A", func() { cs.handleRequest() })
	verifThread("B", func() { cs.handleRequest() })
	verifReach("replies-declared")
}

// VerifH_C06_OneReply (sequential): one frame with a symbolic tag against a
// tag table with 0..2 in-flight tags.
func VerifH_C06_OneReply() {
	fs := &verifFS{}
	_, cs := verifNewSession(fs, 0)
	verifAssume(verifErrnoOf(cs.handle(&tattach{fid: 1, Auth: tauth{Authenticationfid: noFID}})) == 0)
	nin := verifChoice(3)
	inflight := make([]tag, nin)
	for i := range inflight {
		inflight[i] = tag(verifNondetU16())
		for j := 0; j < i; j++ {
			verifAssume(inflight[i] != inflight[j])
		}
		verifAssume(cs.StartTag(inflight[i]))
	}
	tg := verifNondetU16()
	msgs := []message{&tgetattr{fid: 1, AttrMask: AttrMaskAll}, &tclunk{fid: 7}, &tstatfs{fid: 1}, &twalk{fid: 1, newFID: 2}}
	m := msgs[verifChoice(len(msgs))]
	w := &verifRecWriter{keep: true}
	cs.t = &verifSegReader{data: verifFrame(tg, m)}
	cs.r = w
	cs.recvIdle = 1
	ok := cs.handleRequest()
	verifAssert(ok, "the connection stays up")
	dup := false
	for _, t := range inflight {
		if t == tag(tg) {
			dup = true
		}
	}
	if dup {
		verifReach("duplicate-tag-ignored")
		verifAssert(len(w.data) == 0, "a request whose tag is already in flight gets no reply")
	} else {
		verifReach("replied")
		verifAssert(len(w.data) >= 7 && int(verifLE32(w.data[0:4])) == len(w.data), "exactly one reply frame")
		if len(w.data) >= 7 {
			rt := w.data[4]
			verifAssert(uint16(w.data[5])|uint16(w.data[6])<<8 == tg, "the reply carries the request's tag")
			verifAssert(rt == uint8(m.typ())+1 || rt == 7, "the reply is the matching R-type or Rlerror")
		}
	}
	// tag table afterwards = before
	verifAssert(len(cs.tags) == nin, "tag table restored")
	for _, t := range inflight {
		_, still := cs.tags[t]
		verifAssert(still, "other in-flight tags untouched")
	}
}

// ---- C16: progress (dead-lock freedom), race freedom and isolation ----

const verifC16NOps = 16

func verifC16Op(op int, cs *connState, f verifFidSet) func() {
	switch op {
	case 0:
		return func() { verifC16Reply(cs.handle(&twalk{fid: f.dir, newFID: f.newBase, Names: []string{"f"}})) }
	case 1:
		return func() { verifC16Reply(cs.handle(&twalk{fid: 1, newFID: f.newBase + 1, Names: []string{"d", "f"}})) }
	case 2:
		return func() { verifC16Reply(cs.handle(&twalk{fid: f.file, newFID: f.newBase + 2})) }
	case 3:
		return func() {
			verifC16Reply(cs.handle(&tlcreate{fid: f.dir, Name: "n", OpenFlags: ReadWrite, Permissions: 0644}))
		}
	case 4:
		return func() { verifC16Reply(cs.handle(&tunlinkat{Directory: f.dir, Name: "f"})) }
	case 5:
		return func() {
			verifC16Reply(cs.handle(&trenameat{OldDirectory: f.dir, OldName: "f", NewDirectory: f.dir, NewName: "r"}))
		}
	case 6:
		return func() {
			verifC16Reply(cs.handle(&trenameat{OldDirectory: f.dir, OldName: "f", NewDirectory: f.other, NewName: "x"}))
		}
	case 7:
		return func() { verifC16Reply(cs.handle(&trename{fid: f.file, Directory: f.other, Name: "y"})) }
	case 8:
		return func() { verifC16Reply(cs.handle(&tremove{fid: f.file})) }
	case 9:
		return func() { verifC16Reply(cs.handle(&tclunk{fid: f.file})) }
	case 10:
		return func() { verifC16Reply(cs.handle(&tclunk{fid: f.openFile})) }
	case 11:
		return func() { verifC16Reply(cs.handle(&tread{fid: f.openFile, Offset: 0, Count: 4})) }
	case 12:
		return func() { verifC16Reply(cs.handle(&tgetattr{fid: f.file, AttrMask: AttrMaskAll})) }
	case 13:
		// fid-replacing walk: newfid is already bound (to the file)
		return func() { verifC16Reply(cs.handle(&twalk{fid: f.dir, newFID: f.file, Names: []string{"f"}})) }
	case 14:
		return func() { cs.stop() }
	}
	return func() { verifC16Reply(cs.handle(&tmkdir{Directory: f.other, Name: "q", Permissions: 0755})) }
}

// verifC16Reply records what the client of this request observes.
func verifC16Reply(r message) {
	verifEvent("reply", int(r.typ()), int(verifErrnoOf(r)))
}

// VerifH_C16_Pairs: two concurrent requests (or a request and the teardown of
// a connection) per scenario, on two connections of one server; thread A on
// connection 1, thread B on connection 2 (relation 0) or on connection 1 with
// a disjoint fid set (relation 1).
func VerifH_C16_Pairs() {
	sc := verifParam("scenario", 0)
	opA := sc % verifC16NOps
	opB := (sc / verifC16NOps) % verifC16NOps
	rel := sc / (verifC16NOps * verifC16NOps)
	verifLeanSetup = rel == 0
	if rel == 2 {
		// tiny sessions: A is one of the directory operations of connection 1
		// (0 walk, 3 create, 4 unlink, 5/6 rename, 15 mkdir), B releases or uses
		// connection 2's only fid on /d/f (2, 7, 8, 9, 12, 14)
		okA := opA == 0 || opA == 3 || opA == 4 || opA == 5 || opA == 6 || opA == 15
		okB := opB == 2 || opB == 7 || opB == 8 || opB == 9 || opB == 12 || opB == 14
		if !okA || !okB {
			verifReach("skip")
			return
		}
		verifTinySetup = true
	}
	fs, _, cs1, cs2, a, b := verifSchedSetup()
	cs1.t, cs1.r = &verifNopCloser{}, &verifNopCloser{}
	cs2.t, cs2.r = &verifNopCloser{}, &verifNopCloser{}
	if opA == 14 {
		// a connection tears down while the OTHER one works: A is never the teardown of its own peer's connection
		verifReach("skip")
		return
	}
	csB, fb := cs2, a
	if rel == 1 {
		if opB == 14 {
			verifReach("skip")
			return
		}
		csB, fb = cs1, b
	}
	if rel == 3 {
		// isolation: A works in /d on connection 1, B in /e on connection 2
		// (disjoint fids, disjoint subtrees); only operations that stay inside
		// their subtree
		okA := opA <= 5 || (opA >= 8 && opA <= 13)
		okB := opB == 0 || opB == 2 || opB == 3 || opB == 4 || opB == 5 || opB == 8 || opB == 9 || opB == 12
		if !okA || !okB {
			verifReach("skip")
			return
		}
		fb = verifFidSet{dir: a.other, file: a.otherFile, openFile: a.otherFile, openDir: a.other, other: a.dir, otherFile: a.file, newBase: a.newBase}
		verifReach("disjoint-pair")
	}
	fs.sched = true
	if opA == 1 || opB == 1 {
		// the two-component walk must get past its first component: walked nodes are directories
		fs.walkMode = ModeDirectory
	}
	ta, tb := verifC16Op(opA, cs1, a), verifC16Op(opB, csB, fb)
	verifThread("A", ta)
	verifThread("B", tb)
	verifReach("pair-declared")
}
