package p9

import (
	"github.com/hugelgupf/p9/linux"
)

// C08: path coherence under rename/unlink and fencing of deleted paths.
//
// Backend: a path-based file system in the style of localfs: every File holds
// a path string, operations resolve it in a path->inode table, Renamed
// rewrites it. A File whose path has gone stale is therefore observable as
// the wrong inode.
//
// Oracle: an identity model keyed by inode (directory inode -> name -> inode),
// updated with the client-level meaning of every request.

type verifPFS struct {
	tree    map[string]int // path ("" = root, "/a/b") -> inode
	isDir   map[int]bool
	nextIno int
	calls   int
	files   []*verifPFile
}

type verifPFile struct {
	File
	fs     *verifPFS
	path   string
	closed int
}

func (fs *verifPFS) Attach() (File, error) {
	return fs.file(""), nil
}

func (fs *verifPFS) file(p string) *verifPFile {
	f := &verifPFile{fs: fs, path: p}
	fs.files = append(fs.files, f)
	return f
}

func (f *verifPFile) qid() (QID, FileMode, bool) {
	ino, ok := f.fs.tree[f.path]
	if !ok {
		return QID{}, 0, false
	}
	m := FileMode(ModeRegular | 0644)
	if f.fs.isDir[ino] {
		m = ModeDirectory | 0755
	}
	return QID{Type: m.QIDType(), Path: uint64(ino)}, m, true
}

func (f *verifPFile) Walk(names []string) ([]QID, File, error) {
	f.fs.calls++
	if len(names) == 0 {
		return nil, f.fs.file(f.path), nil
	}
	p := f.path
	var qids []QID
	for _, n := range names {
		p = p + "/" + n
		c := &verifPFile{fs: f.fs, path: p}
		q, _, ok := c.qid()
		if !ok {
			return nil, nil, linux.ENOENT
		}
		qids = append(qids, q)
	}
	return qids, f.fs.file(p), nil
}

func (f *verifPFile) WalkGetAttr(names []string) ([]QID, File, AttrMask, Attr, error) {
	return nil, nil, AttrMask{}, Attr{}, linux.ENOSYS
}

func (f *verifPFile) GetAttr(req AttrMask) (QID, AttrMask, Attr, error) {
	f.fs.calls++
	q, m, ok := f.qid()
	if !ok {
		return QID{}, AttrMask{}, Attr{}, linux.ENOENT
	}
	return q, AttrMask{Mode: true, INo: true}, Attr{Mode: m}, nil
}

func (f *verifPFile) Close() error { f.closed++; return nil }

func (f *verifPFile) Open(mode OpenFlags) (QID, uint32, error) {
	f.fs.calls++
	q, _, ok := f.qid()
	if !ok {
		return QID{}, 0, linux.ENOENT
	}
	return q, 0, nil
}

func (f *verifPFile) mk(name string, dir bool) (QID, *verifPFile, error) {
	f.fs.calls++
	p := f.path + "/" + name
	if _, exists := f.fs.tree[p]; exists {
		return QID{}, nil, linux.EEXIST
	}
	if _, ok := f.fs.tree[f.path]; !ok {
		return QID{}, nil, linux.ENOENT
	}
	f.fs.nextIno++
	f.fs.tree[p] = f.fs.nextIno
	f.fs.isDir[f.fs.nextIno] = dir
	c := f.fs.file(p)
	q, _, _ := c.qid()
	return q, c, nil
}

func (f *verifPFile) Mkdir(name string, permissions FileMode, uid UID, gid GID) (QID, error) {
	q, _, err := f.mk(name, true)
	return q, err
}

func (f *verifPFile) Create(name string, flags OpenFlags, permissions FileMode, uid UID, gid GID) (File, QID, uint32, error) {
	q, c, err := f.mk(name, false)
	if err != nil {
		return nil, QID{}, 0, err
	}
	return c, q, 0, nil
}

func verifHasPrefixPath(p, pre string) bool {
	return p == pre || (len(p) > len(pre) && p[:len(pre)] == pre && p[len(pre)] == '/')
}

func (fs *verifPFS) removeTree(p string) {
	var del []string
	for k := range fs.tree {
		if verifHasPrefixPath(k, p) {
			del = append(del, k)
		}
	}
	for _, k := range del {
		delete(fs.tree, k)
	}
}

func (f *verifPFile) UnlinkAt(name string, flags uint32) error {
	f.fs.calls++
	p := f.path + "/" + name
	if _, ok := f.fs.tree[p]; !ok {
		return linux.ENOENT
	}
	f.fs.removeTree(p)
	return nil
}

func (f *verifPFile) RenameAt(oldName string, newDir File, newName string) error {
	f.fs.calls++
	nd := newDir.(*verifPFile)
	op := f.path + "/" + oldName
	np := nd.path + "/" + newName
	if _, ok := f.fs.tree[op]; !ok {
		return linux.ENOENT
	}
	if _, ok := f.fs.tree[nd.path]; !ok {
		return linux.ENOENT
	}
	if verifHasPrefixPath(nd.path, op) {
		return linux.EINVAL // into itself or its own subtree
	}
	if op == np {
		return nil
	}
	// overwriting a non-empty directory is refused (rename(2): ENOTEMPTY)
	for k := range f.fs.tree {
		if k != np && verifHasPrefixPath(k, np) {
			return linux.ENOTEMPTY
		}
	}
	f.fs.removeTree(np)
	type mv struct {
		from, to string
		ino      int
	}
	var moves []mv
	for k, ino := range f.fs.tree {
		if verifHasPrefixPath(k, op) {
			moves = append(moves, mv{k, np + k[len(op):], ino})
		}
	}
	for _, m := range moves {
		delete(f.fs.tree, m.from)
	}
	for _, m := range moves {
		f.fs.tree[m.to] = m.ino
	}
	return nil
}

func (f *verifPFile) Renamed(newDir File, newName string) {
	f.path = newDir.(*verifPFile).path + "/" + newName
}

func (f *verifPFile) ReadAt(p []byte, offset int64) (int, error) {
	f.fs.calls++
	return 0, nil
}

// ---- identity model ----

type verifIModel struct {
	children map[int]map[string]int // dir inode -> name -> inode
	parent   map[int]int            // inode -> parent dir inode (0 for root's parent)
	nameOf   map[int]string
	isDir    map[int]bool
	gone     map[int]bool // unlinked or overwritten
	next     int
}

func (m *verifIModel) markGone(ino int) {
	m.gone[ino] = true
	for _, c := range m.children[ino] {
		m.markGone(c)
	}
}

func (m *verifIModel) pathOf(ino int) string {
	if ino == 1 {
		return ""
	}
	return m.pathOf(m.parent[ino]) + "/" + m.nameOf[ino]
}

func (m *verifIModel) isAncestorOrSelf(a, b int) bool {
	for x, hops := b, 0; x != 0 && hops < 10; x, hops = m.parent[x], hops+1 {
		if x == a {
			return true
		}
	}
	return false
}

type verifPFid struct {
	fid    fid
	ino    int
	opened bool
}

// VerifH_C08_Paths: sequences of walk/clone/mkdir/create/renameat/rename/
// unlinkat/remove/clunk over a small tree.
func VerifH_C08_Paths() {
	pfs := &verifPFS{tree: map[string]int{"": 1}, isDir: map[int]bool{1: true}, nextIno: 1}
	m := &verifIModel{children: map[int]map[string]int{1: {}}, parent: map[int]int{}, nameOf: map[int]string{}, isDir: map[int]bool{1: true}, gone: map[int]bool{}, next: 1}
	s := NewServer(pfs)
	cs := verifNewConn(s)
	r := cs.handle(&tversion{MSize: 8192, Version: "9P2000.L"})
	_, ok := r.(*rversion)
	verifAssume(ok)
	verifAssume(verifErrnoOf(cs.handle(&tattach{fid: 1, Auth: tauth{Authenticationfid: noFID}})) == 0)
	fids := []*verifPFid{{fid: 1, ino: 1}}
	// initial tree: /a (dir), /a/b (dir), /c (file); fid 2 -> /a, fid 3 -> /a/b
	mkModel := func(dir int, name string, isDir bool) int {
		m.next++
		ino := m.next
		m.children[dir][name] = ino
		m.parent[ino], m.nameOf[ino], m.isDir[ino] = dir, name, isDir
		if isDir {
			m.children[ino] = map[string]int{}
		}
		return ino
	}
	verifAssume(verifErrnoOf(cs.handle(&tmkdir{Directory: 1, Name: "a"})) == 0)
	ia := mkModel(1, "a", true)
	verifAssume(verifErrnoOf(cs.handle(&twalk{fid: 1, newFID: 2, Names: []string{"a"}})) == 0)
	fids = append(fids, &verifPFid{fid: 2, ino: ia})
	verifAssume(verifErrnoOf(cs.handle(&tmkdir{Directory: 2, Name: "b"})) == 0)
	ib := mkModel(ia, "b", true)
	verifAssume(verifErrnoOf(cs.handle(&twalk{fid: 2, newFID: 3, Names: []string{"b"}})) == 0)
	fids = append(fids, &verifPFid{fid: 3, ino: ib})
	// name alphabet: the two names in use plus one arbitrary safe byte (paths fork by
	// equality pattern; the solver covers every byte value inside each pattern)
	sym := "c"
	if verifParam("SYM", 1) == 1 {
		sym = verifNondetString(1)
		verifAssume(verifSafeName(sym))
	}
	names := []string{"a", "b", sym}
	nextFid := fid(4)
	depth := verifParam("D", 3)
	find := func(f fid) *verifPFid {
		for _, x := range fids {
			if x.fid == f {
				return x
			}
		}
		return nil
	}
	unbind := func(f fid) {
		for i, x := range fids {
			if x.fid == f {
				fids = append(fids[:i:i], fids[i+1:]...)
				return
			}
		}
	}
	for step := 0; step < depth; step++ {
		if len(fids) == 0 {
			break
		}
		src := fids[verifChoice(len(fids))]
		fenced := m.gone[src.ino]
		callsBefore := pfs.calls
		op := verifChoice(9)
		if verifParam("RENAMEONLY", 0) == 1 {
			// thorough tier, deeper: rename/unlink/walk alphabet only
			verifAssume(op == 0 || op == 4 || op == 5 || op == 6 || op == 7)
		}
		verifOut("op", step, op, uint64(src.fid), src.ino)
		switch op {
		case 0: // walk one component to a new fid
			n := names[verifChoice(3)]
			nf := nextFid
			nextFid++
			rep := cs.handle(&twalk{fid: src.fid, newFID: nf, Names: []string{n}})
			if !m.isDir[src.ino] {
				break
			}
			if fenced {
				verifReach("fenced-walk")
				verifAssert(verifErrnoOf(rep) == eNOENT && pfs.calls == callsBefore, "walk to a child from a fenced fid fails with ENOENT without reaching the backend")
				break
			}
			c, exists := m.children[src.ino][n]
			verifAssert((verifErrnoOf(rep) == 0) == exists, "walk finds exactly the entries that exist under the fid's current path")
			if exists && verifErrnoOf(rep) == 0 {
				fids = append(fids, &verifPFid{fid: nf, ino: c})
			}
		case 1: // clone
			nf := nextFid
			nextFid++
			rep := cs.handle(&twalk{fid: src.fid, newFID: nf})
			verifAssert(verifErrnoOf(rep) == 0, "clone of a fid succeeds (also when fenced)")
			if verifErrnoOf(rep) == 0 {
				fids = append(fids, &verifPFid{fid: nf, ino: src.ino})
			}
		case 2, 3: // mkdir / create
			n := names[verifChoice(3)]
			if !m.isDir[src.ino] || src.opened {
				break
			}
			var rep message
			if op == 2 {
				rep = cs.handle(&tmkdir{Directory: src.fid, Name: n})
			} else {
				rep = cs.handle(&tlcreate{fid: src.fid, Name: n, OpenFlags: ReadWrite})
			}
			if fenced {
				verifReach("fenced-create")
				verifAssert(verifErrnoOf(rep) == eINVAL && pfs.calls == callsBefore, "creating under a fenced fid fails with EINVAL without reaching the backend")
				break
			}
			_, exists := m.children[src.ino][n]
			verifAssert((verifErrnoOf(rep) == 0) == !exists, "create/mkdir acts on the fid's current path")
			if verifErrnoOf(rep) == 0 {
				ino := mkModel(src.ino, n, op == 2)
				if op == 3 {
					src.ino, src.opened = ino, true // Tlcreate rebinds the fid to the new file
				}
			}
		case 4: // renameat within/between directories
			o, n := names[verifChoice(3)], names[verifChoice(3)]
			dst := fids[verifChoice(len(fids))]
			if !m.isDir[src.ino] || !m.isDir[dst.ino] || src.opened {
				break
			}
			verifOut("renameat", o, uint64(dst.fid), n)
			rep := cs.handle(&trenameat{OldDirectory: src.fid, OldName: o, NewDirectory: dst.fid, NewName: n})
			verifOut("reply", verifErrnoOf(rep))
			if fenced || m.gone[dst.ino] {
				verifReach("fenced-rename")
				verifAssert(verifErrnoOf(rep) == eINVAL && pfs.calls == callsBefore, "renaming through a fenced fid fails with EINVAL without reaching the backend")
				break
			}
			moved, exists := m.children[src.ino][o]
			if src.ino == dst.ino && o == n {
				break
			}
			legal := exists && !m.isAncestorOrSelf(moved, dst.ino)
			if old, had := m.children[dst.ino][n]; had && len(m.children[old]) > 0 {
				legal = false // target is a non-empty directory
			}
			verifAssert((verifErrnoOf(rep) == 0) == legal, "renameat acts on the entries at the directories' current paths")
			if legal && verifErrnoOf(rep) == 0 {
				verifReach("renamed")
				if old, had := m.children[dst.ino][n]; had {
					m.markGone(old)
				}
				delete(m.children[src.ino], o)
				m.children[dst.ino][n] = moved
				m.parent[moved], m.nameOf[moved] = dst.ino, n
			}
		case 5: // Trename of the fid itself
			n := names[verifChoice(3)]
			dst := fids[verifChoice(len(fids))]
			if src.ino == 1 || !m.isDir[dst.ino] {
				break
			}
			verifOut("rename", uint64(dst.fid), n)
			rep := cs.handle(&trename{fid: src.fid, Directory: dst.fid, Name: n})
			verifOut("reply", verifErrnoOf(rep))
			if fenced || m.gone[dst.ino] {
				verifReach("fenced-rename")
				verifAssert(verifErrnoOf(rep) == eINVAL && pfs.calls == callsBefore, "Trename through a fenced fid fails with EINVAL without reaching the backend")
				break
			}
			if m.parent[src.ino] == dst.ino && m.nameOf[src.ino] == n {
				break
			}
			legal := !m.isAncestorOrSelf(src.ino, dst.ino)
			if old, had := m.children[dst.ino][n]; had && len(m.children[old]) > 0 {
				legal = false
			}
			verifAssert((verifErrnoOf(rep) == 0) == legal, "Trename uses the entry's current parent and name")
			if legal && verifErrnoOf(rep) == 0 {
				verifReach("renamed")
				if old, had := m.children[dst.ino][n]; had {
					m.markGone(old)
				}
				delete(m.children[m.parent[src.ino]], m.nameOf[src.ino])
				m.children[dst.ino][n] = src.ino
				m.parent[src.ino], m.nameOf[src.ino] = dst.ino, n
			}
		case 6: // unlinkat
			n := names[verifChoice(3)]
			if !m.isDir[src.ino] || src.opened {
				break
			}
			rep := cs.handle(&tunlinkat{Directory: src.fid, Name: n})
			if fenced {
				verifReach("fenced-unlink")
				verifAssert(verifErrnoOf(rep) == eINVAL && pfs.calls == callsBefore, "unlinking under a fenced fid fails with EINVAL without reaching the backend")
				break
			}
			c, exists := m.children[src.ino][n]
			verifAssert((verifErrnoOf(rep) == 0) == exists, "unlinkat acts on the entry at the directory's current path")
			if exists && verifErrnoOf(rep) == 0 {
				verifReach("unlinked")
				m.markGone(c)
				delete(m.children[src.ino], n)
			}
		case 7: // Tremove: unlinks the fid's file under its current name and clunks
			if src.ino == 1 {
				break
			}
			rep := cs.handle(&tremove{fid: src.fid})
			if fenced {
				verifAssert(verifErrnoOf(rep) == eINVAL, "Tremove of a fenced fid fails with EINVAL")
			} else {
				verifAssert(verifErrnoOf(rep) == 0, "Tremove removes the entry under its current name")
				verifReach("unlinked")
				m.markGone(src.ino)
				delete(m.children[m.parent[src.ino]], m.nameOf[src.ino])
			}
			unbind(src.fid)
		default: // clunk
			if src.fid == 1 {
				break
			}
			rep := cs.handle(&tclunk{fid: src.fid})
			verifAssert(verifErrnoOf(rep) == 0, "clunk")
			unbind(src.fid)
		}
		_ = find

		// ---- after every step ----
		// (1) backend and model agree on the whole tree
		var mcount int
		var walkM func(ino int, p string)
		walkM = func(ino int, p string) {
			mcount++
			got, ok := pfs.tree[p]
			verifAssert(ok && got == ino, "backend tree equals the tree the requests describe")
			for n, c := range m.children[ino] {
				walkM(c, p+"/"+n)
			}
		}
		walkM(1, "")
		verifAssert(mcount == len(pfs.tree), "backend tree has no extra entries")
		// (2) every live, unfenced fid denotes the object it was bound to, at its current path
		for _, x := range fids {
			ref, bound := cs.fids[x.fid]
			verifAssert(bound, "fid still bound")
			if !bound {
				continue
			}
			pf := ref.file.(*verifPFile)
			if m.gone[x.ino] {
				verifAssert(ref.isDeleted(), "fids at or below an unlinked or overwritten path are fenced")
				continue
			}
			verifAssert(!ref.isDeleted(), "fids on live paths are not fenced")
			verifAssert(pf.path == m.pathOf(x.ino), "the backend was told the File's current parent and name")
			rep := cs.handle(&tgetattr{fid: x.fid, AttrMask: AttrMaskAll})
			ga, isGA := rep.(*rgetattr)
			verifAssert(isGA && int(ga.QID.Path) == x.ino, "a fid keeps denoting the file object it was bound to")
		}
		// (3) structural invariant of the path tree
		verifCheckPathTree(s.pathTree)
	}
	verifReach("sequence-done")
}

// verifCheckPathTree: childRefs and childRefNames agree at every node.
func verifCheckPathTree(pn *pathNode) {
	n := 0
	for name, set := range pn.childRefs {
		for ref := range set {
			n++
			got, ok := pn.childRefNames[ref]
			verifAssert(ok && got == name, "childRefs and childRefNames agree")
		}
	}
	verifAssert(n == len(pn.childRefNames), "no stale entry in childRefNames")
	for _, c := range pn.childNodes {
		verifCheckPathTree(c)
	}
}
