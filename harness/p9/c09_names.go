package p9

// C09: name confinement.

// verifCheckLogNames asserts that every string the backend saw in a
// path-component position is a safe component.
func verifCheckLogNames(fs *verifFS, from int) {
	for i := from; i < len(fs.log); i++ {
		c := fs.log[i]
		for k := 0; k < c.npath; k++ {
			verifAssert(verifSafeName(c.s[k]), "backend never sees an empty, '.', '..' or '/'-containing component ("+c.op+")")
		}
		if (c.op == "Walk" || c.op == "WalkGetAttr") && len(c.s) > 0 {
			verifAssert(len(c.s) == 1, "walks advance one component per backend call")
			verifAssert(fs.node(c.node).mode.IsDir(), "walks only proceed through nodes reported as directories")
		}
	}
}

func verifBackendReached(fs *verifFS, from int) bool {
	for i := from; i < len(fs.log); i++ {
		op := fs.log[i].op
		if op != "Close" {
			return true
		}
	}
	return false
}

// VerifH_C09_Names: every name-bearing request with arbitrary name bytes.
func VerifH_C09_Names() {
	fs := &verifFS{}
	v := uint32(verifChoice(2) * 7) // version 0 or 7
	_, cs := verifNewSession(fs, v)
	// fid 1 = root directory, fid 2 = a second directory (clone of root), fid 3 = a file
	r := cs.handle(&tattach{fid: 1, Auth: tauth{Authenticationfid: noFID}})
	verifAssume(verifErrnoOf(r) == 0)
	r = cs.handle(&twalk{fid: 1, newFID: 2})
	verifAssume(verifErrnoOf(r) == 0)
	L := verifParam("L", 3)
	name := verifNondetString(verifChoice(L + 1))
	name2 := "ok"
	start := len(fs.log)
	var reply message
	unsafe := !verifSafeName(name)
	pos := verifChoice(15)
	switch pos {
	case 0:
		reply = cs.handle(&twalk{fid: 1, newFID: 5, Names: []string{name}})
	case 1:
		name2 = verifNondetString(verifChoice(L + 1))
		unsafe = unsafe || !verifSafeName(name2)
		reply = cs.handle(&twalk{fid: 1, newFID: 5, Names: []string{name, name2}})
	case 2:
		reply = cs.handle(&twalkgetattr{fid: 1, newFID: 5, Names: []string{name2, name}})
	case 3:
		reply = cs.handle(&tlcreate{fid: 2, Name: name, OpenFlags: ReadWrite, Permissions: 0644})
	case 4:
		reply = cs.handle(&tucreate{tlcreate: tlcreate{fid: 2, Name: name, OpenFlags: ReadWrite, Permissions: 0644}, UID: 1})
	case 5:
		reply = cs.handle(&tmkdir{Directory: 1, Name: name, Permissions: 0755})
	case 6:
		reply = cs.handle(&tumkdir{tmkdir: tmkdir{Directory: 1, Name: name, Permissions: 0755}, UID: 1})
	case 7:
		reply = cs.handle(&tsymlink{Directory: 1, Name: name, Target: verifNondetString(2)})
	case 8:
		reply = cs.handle(&tusymlink{tsymlink: tsymlink{Directory: 1, Name: name, Target: "../../etc"}, UID: 1})
	case 9:
		reply = cs.handle(&tlink{Directory: 1, Target: 2, Name: name})
	case 10:
		reply = cs.handle(&tmknod{Directory: 1, Name: name, Mode: ModeNamedPipe})
	case 11:
		reply = cs.handle(&tumknod{tmknod: tmknod{Directory: 1, Name: name, Mode: ModeNamedPipe}, UID: 1})
	case 12:
		// Trename of fid 5 (a child bound first) to a new name
		r = cs.handle(&twalk{fid: 1, newFID: 5, Names: []string{"child"}})
		verifAssume(verifErrnoOf(r) == 0)
		start = len(fs.log)
		reply = cs.handle(&trename{fid: 5, Directory: 2, Name: name})
	case 13:
		if verifChoice(2) == 0 {
			reply = cs.handle(&trenameat{OldDirectory: 1, OldName: name, NewDirectory: 2, NewName: name2})
		} else {
			reply = cs.handle(&trenameat{OldDirectory: 1, OldName: name2, NewDirectory: 2, NewName: name})
		}
	default:
		reply = cs.handle(&tunlinkat{Directory: 1, Name: name, Flags: verifNondetU32()})
	}
	verifCheckLogNames(fs, start)
	if unsafe {
		verifReach("unsafe-name")
		verifAssert(verifErrnoOf(reply) == uint32(linux_EINVAL), "unsafe name refused with EINVAL")
		verifAssert(!verifBackendReached(fs, start), "unsafe name refused before the backend is reached")
	} else {
		verifReach("safe-name")
	}
}

const linux_EINVAL = 22
const linux_EBADF = 9
const linux_EIO = 5
const linux_EFAULT = 14

// VerifH_C09_Attach: attach names of arbitrary bytes, split on '/'.
func VerifH_C09_Attach() {
	fs := &verifFS{}
	_, cs := verifNewSession(fs, 7)
	aname := verifNondetString(verifChoice(verifParam("AL", 4) + 1))
	start := len(fs.log)
	reply := cs.handle(&tattach{fid: 1, Auth: tauth{Authenticationfid: noFID, AttachName: aname}})
	verifCheckLogNames(fs, start)
	// independent statement: strip one leading '/', then every '/'-separated
	// component must be safe (an empty remainder attaches the root)
	rest := aname
	if len(rest) > 0 && rest[0] == '/' {
		rest = rest[1:]
	}
	bad := false
	if len(rest) > 0 {
		comp := 0
		for i := 0; i <= len(rest); i++ {
			if i == len(rest) || rest[i] == '/' {
				c := rest[comp:i]
				if c == "" || c == "." || c == ".." {
					bad = true
				}
				comp = i + 1
			}
		}
	}
	walked := false
	for i := start; i < len(fs.log); i++ {
		if fs.log[i].op == "Walk" {
			walked = true
		}
	}
	if bad {
		verifReach("unsafe-aname")
		verifAssert(verifErrnoOf(reply) == linux_EINVAL, "unsafe attach name refused with EINVAL")
		verifAssert(!walked, "no walk reaches the backend for an unsafe attach name")
	} else if len(rest) == 0 {
		verifReach("root-attach")
		verifAssert(!walked, "attaching the root walks nothing")
	} else {
		verifReach("safe-aname")
	}
}

// VerifH_C09_Through: walks whose starting fid or intermediate components are
// nodes of ARBITRARY type (the backend reports a symbolic mode for every walked
// node): a named walk never calls Walk on a node the backend did not report as
// a directory - neither on the node the starting fid is bound to (bound by an
// earlier, legal, one-component walk) nor on an intermediate result - whether
// it is issued as Twalk or Twalkgetattr, in one request or in two.
func VerifH_C09_Through() {
	fs := &verifFS{} // walkMode 0: every walked node gets a symbolic mode
	if verifChoice(2) == 1 {
		fs.useWGAall = true
	}
	_, cs := verifNewSession(fs, 7)
	verifAssume(verifErrnoOf(cs.handle(&tattach{fid: 1, Auth: tauth{Authenticationfid: noFID}})) == 0)
	// fid 5: one legal step from the root onto a node of arbitrary type
	verifAssume(verifErrnoOf(cs.handle(&twalk{fid: 1, newFID: 5, Names: []string{"x"}})) == 0)
	start := len(fs.log)
	var reply message
	switch verifChoice(4) {
	case 0:
		reply = cs.handle(&twalk{fid: 5, newFID: 6, Names: []string{"y"}})
	case 1:
		reply = cs.handle(&twalkgetattr{fid: 5, newFID: 6, Names: []string{"y"}})
	case 2:
		reply = cs.handle(&twalk{fid: 1, newFID: 6, Names: []string{"a", "b", "c"}})
	default:
		reply = cs.handle(&twalkgetattr{fid: 1, newFID: 6, Names: []string{"a", "b"}})
	}
	verifCheckLogNames(fs, start)
	if verifErrnoOf(reply) != 0 {
		verifReach("walk-refused")
		_, bound := cs.fids[6]
		verifAssert(!bound, "a refused walk binds nothing")
	} else {
		verifReach("walk-accepted")
	}
}
