package p9

// C10: client multiplexing.

// VerifH_C10_PoolStep: one inductive step of the tag/fid allocator from an
// arbitrary state satisfying the representation invariant.
//
//	INV: cache elements pairwise distinct, each < start, none outstanding;
//	     outstanding elements pairwise distinct and < start; start <= limit.
func VerifH_C10_PoolStep() {
	nc := verifChoice(verifParam("C", 3) + 1)
	no := verifChoice(verifParam("O", 3) + 1)
	p := &pool{start: verifNondetU64(), limit: verifNondetU64()}
	verifAssume(p.start <= p.limit)
	for i := 0; i < nc; i++ {
		p.cache = append(p.cache, verifNondetU64())
	}
	out := make([]uint64, no)
	for i := range out {
		out[i] = verifNondetU64()
	}
	inv := func(cache []uint64, outs []uint64, start, limit uint64) bool {
		ok := start <= limit
		for i := range cache {
			ok = ok && cache[i] < start
			for j := 0; j < i; j++ {
				ok = ok && cache[i] != cache[j]
			}
			for _, o := range outs {
				ok = ok && cache[i] != o
			}
		}
		for i := range outs {
			ok = ok && outs[i] < start
			for j := 0; j < i; j++ {
				ok = ok && outs[i] != outs[j]
			}
		}
		return ok
	}
	verifAssume(inv(p.cache, out, p.start, p.limit))
	limit := p.limit
	if verifChoice(2) == 0 {
		v, ok := p.Get()
		if ok {
			verifReach("get-ok")
			verifAssert(v != limit, "Get never returns the limit (NOTAG/NOFID)")
			for _, o := range out {
				verifAssert(v != o, "Get returns a value that is not outstanding")
			}
			verifAssert(inv(p.cache, append(out, v), p.start, p.limit), "invariant preserved by Get")
		} else {
			verifReach("get-exhausted")
			verifAssert(len(p.cache) == 0 && p.start == p.limit, "Get fails only when exhausted")
		}
	} else if no > 0 {
		verifReach("put")
		k := verifChoice(no)
		v := out[k]
		rest := append(append([]uint64{}, out[:k]...), out[k+1:]...)
		p.Put(v)
		verifAssert(inv(p.cache, rest, p.start, p.limit), "invariant preserved by Put of an outstanding value")
	}
	verifAssert(p.limit == limit, "limit never changes")
}

// VerifH_C10_Demux: one step of handleOne with 0..3 pending calls of arbitrary
// expected types and an incoming frame with symbolic tag, type and body.
func VerifH_C10_Demux() {
	np := verifChoice(verifParam("PN", 3) + 1)
	c := &Client{pending: make(map[tag]*response), recvr: make(chan bool, 1), messageSize: 1 << 16, log: verifLog}
	kinds := []func() message{
		func() message { return &rclunk{} },
		func() message { return &rwrite{} },
		func() message { return &rlopen{} },
		func() message { return &rreadlink{} },
	}
	tags := make([]tag, np)
	resps := make([]*response, np)
	want := make([]message, np)
	for i := 0; i < np; i++ {
		tags[i] = tag(verifNondetU16())
		for j := 0; j < i; j++ {
			verifAssume(tags[i] != tags[j])
		}
		want[i] = kinds[verifChoice(len(kinds))]()
		resps[i] = &response{r: want[i], done: make(chan error, 1)}
		c.pending[tags[i]] = resps[i]
	}
	// incoming frame: arbitrary header, body of 0..B arbitrary bytes
	bl := verifChoice(verifParam("B", 6) + 1)
	body := verifNondetBytes(bl)
	tg := verifNondetU16()
	typ := verifNondetU8()
	e := &specEnc{}
	e.u32(uint32(7 + bl))
	e.u8(typ)
	e.u16(tg)
	e.bytes(body)
	conn := &verifRWC{r: &verifSegReader{data: e.b}}
	c.conn = conn
	c.handleOne()
	// who was signalled?
	signalled := 0
	var sigErr [4]bool
	var got [4]bool
	for i := 0; i < np; i++ {
		select {
		case err := <-resps[i].done:
			got[i] = true
			sigErr[i] = err != nil
			signalled++
		default:
		}
		// nobody is signalled twice
		select {
		case <-resps[i].done:
			verifAssert(false, "a pending call is signalled twice")
		default:
		}
	}
	match := -1
	for i := 0; i < np; i++ {
		if tags[i] == tag(tg) {
			match = i
		}
	}
	if signalled == 1 && match >= 0 && got[match] && !sigErr[match] {
		verifReach("delivered")
		verifAssert(typ == uint8(want[match].typ()) || typ == 7, "only the expected reply type or Rlerror is delivered")
		_, stillPending := c.pending[tags[match]]
		verifAssert(!stillPending, "delivered call removed from pending")
		verifAssert(len(c.pending) == np-1, "other calls stay pending")
		if typ != 7 {
			verifAssert(resps[match].r == want[match], "reply decoded into the caller's own message")
		}
		return
	}
	// anything else must be the failure broadcast: every pending call gets an error
	verifReach("broadcast")
	for i := 0; i < np; i++ {
		verifAssert(got[i] && sigErr[i], "on a bad frame every pending call returns an error")
	}
	verifAssert(len(c.pending) == 0, "pending emptied after a bad frame")
	if match >= 0 && (typ == uint8(want[match].typ()) || typ == 7) {
		verifReach("matching-frame-rejected")
	}
}

type verifRWC struct {
	r      *verifSegReader
	w      verifRecWriter
	closed bool
}

func (c *verifRWC) Read(p []byte) (int, error)  { return c.r.Read(p) }
func (c *verifRWC) Write(p []byte) (int, error) { return c.w.Write(p) }
func (c *verifRWC) Close() error                { c.closed = true; return nil }
