package p9

// C10: client multiplexing.

// VerifH_C10_PoolStep: one inductive step of the tag/fid allocator from an
// arbitrary state satisfying the representation invariant.
//
//	INV: cache elements pairwise distinct, each < start, none outstanding;
//	     outstanding elements pairwise distinct and < start; start <= limit.
func VerifH_C10_PoolStep() {
	nc := verifChoice(verifParam("C", 3) + 1)
	no := verifChoice(verifParam("O", 3) + 1)
	p := &pool{start: verifNondetU64(), limit: verifNondetU64()}
	verifAssume(p.start <= p.limit)
	for i := 0; i < nc; i++ {
		p.cache = append(p.cache, verifNondetU64())
	}
	out := make([]uint64, no)
	for i := range out {
		out[i] = verifNondetU64()
	}
	inv := func(cache []uint64, outs []uint64, start, limit uint64) bool {
		ok := start <= limit
		for i := range cache {
			ok = ok && cache[i] < start
			for j := 0; j < i; j++ {
				ok = ok && cache[i] != cache[j]
			}
			for _, o := range outs {
				ok = ok && cache[i] != o
			}
		}
		for i := range outs {
			ok = ok && outs[i] < start
			for j := 0; j < i; j++ {
				ok = ok && outs[i] != outs[j]
			}
		}
		return ok
	}
	verifAssume(inv(p.cache, out, p.start, p.limit))
	limit := p.limit
	if verifChoice(2) == 0 {
		v, ok := p.Get()
		if ok {
			verifReach("get-ok")
			verifAssert(v != limit, "Get never returns the limit (NOTAG/NOFID)")
			for _, o := range out {
				verifAssert(v != o, "Get returns a value that is not outstanding")
			}
			verifAssert(inv(p.cache, append(out, v), p.start, p.limit), "invariant preserved by Get")
		} else {
			verifReach("get-exhausted")
			verifAssert(len(p.cache) == 0 && p.start == p.limit, "Get fails only when exhausted")
		}
	} else if no > 0 {
		verifReach("put")
		k := verifChoice(no)
		v := out[k]
		rest := append(append([]uint64{}, out[:k]...), out[k+1:]...)
		p.Put(v)
		verifAssert(inv(p.cache, rest, p.start, p.limit), "invariant preserved by Put of an outstanding value")
	}
	verifAssert(p.limit == limit, "limit never changes")
}

// VerifH_C10_Demux: one step of handleOne with 0..3 pending calls of arbitrary
// expected types and an incoming frame with symbolic tag, type and body.
func VerifH_C10_Demux() {
	np := verifChoice(verifParam("PN", 3) + 1)
	c := &Client{pending: make(map[tag]*response), recvr: make(chan bool, 1), messageSize: 1 << 16, log: verifLog}
	kinds := []func() message{
		func() message { return &rclunk{} },
		func() message { return &rwrite{} },
		func() message { return &rlopen{} },
		func() message { return &rreadlink{} },
	}
	tags := make([]tag, np)
	resps := make([]*response, np)
	want := make([]message, np)
	for i := 0; i < np; i++ {
		tags[i] = tag(verifNondetU16())
		for j := 0; j < i; j++ {
			verifAssume(tags[i] != tags[j])
		}
		want[i] = kinds[verifChoice(len(kinds))]()
		resps[i] = &response{r: want[i], done: make(chan error, 1)}
		c.pending[tags[i]] = resps[i]
	}
	// incoming frame: arbitrary header, body of 0..B arbitrary bytes
	bl := verifChoice(verifParam("B", 6) + 1)
	body := verifNondetBytes(bl)
	tg := verifNondetU16()
	typ := verifNondetU8()
	e := &specEnc{}
	e.u32(uint32(7 + bl))
	e.u8(typ)
	e.u16(tg)
	e.bytes(body)
	conn := &verifRWC{r: &verifSegReader{data: e.b}}
	c.conn = conn
	c.handleOne()
	// who was signalled?
	signalled := 0
	var sigErr [4]bool
	var got [4]bool
	for i := 0; i < np; i++ {
		select {
		case err := <-resps[i].done:
			got[i] = true
			sigErr[i] = err != nil
			signalled++
		default:
		}
		// nobody is signalled twice
		select {
		case <-resps[i].done:
			verifAssert(false, "a pending call is signalled twice")
		default:
		}
	}
	match := -1
	for i := 0; i < np; i++ {
		if tags[i] == tag(tg) {
			match = i
		}
	}
	if signalled == 1 && match >= 0 && got[match] && !sigErr[match] {
		verifReach("delivered")
		verifAssert(typ == uint8(want[match].typ()) || typ == 7, "only the expected reply type or Rlerror is delivered")
		_, stillPending := c.pending[tags[match]]
		verifAssert(!stillPending, "delivered call removed from pending")
		verifAssert(len(c.pending) == np-1, "other calls stay pending")
		if typ != 7 {
			verifAssert(resps[match].r == want[match], "reply decoded into the caller's own message")
		}
		return
	}
	// anything else must be the failure broadcast: every pending call gets an error
	verifReach("broadcast")
	for i := 0; i < np; i++ {
		verifAssert(got[i] && sigErr[i], "on a bad frame every pending call returns an error")
	}
	verifAssert(len(c.pending) == 0, "pending emptied after a bad frame")
	if match >= 0 && (typ == uint8(want[match].typ()) || typ == 7) {
		verifReach("matching-frame-rejected")
	}
}

type verifRWC struct {
	r      *verifSegReader
	w      verifRecWriter
	closed bool
}

func (c *verifRWC) Read(p []byte) (int, error)  { return c.r.Read(p) }
func (c *verifRWC) Write(p []byte) (int, error) { return c.w.Write(p) }
func (c *verifRWC) Close() error                { c.closed = true; return nil }

// VerifH_C10_SendOrder: the moment the first bytes of a request can reach the
// peer, the reply may arrive - read by whichever goroutine holds the receive
// token. So at every Write to the transport that completes a frame header,
// the frame's tag must already be in the pending table (or the table must be
// locked by the sender, which keeps a receiver from looking it up); otherwise
// there is a schedule in which the reply meets an unknown tag, every pending
// call fails and the sender waits for a reply that was consumed. After each
// call the table is empty again.
func VerifH_C10_SendOrder() {
	f := &verifE2EFile{shortAt: -1, wshortAt: -1}
	s := NewServer(verifE2EAttacher{f})
	cs := verifNewConn(s)
	l := &verifLoop{cs: cs}
	c, err := NewClient(l, WithMessageSize(8192))
	verifAssume(err == nil)
	frames := 0
	l.onWrite = func(sofar []byte) {
		if len(sofar) < 7 {
			return
		}
		tg := tag(uint16(sofar[5]) | uint16(sofar[6])<<8)
		frames++
		verifAssert(tg != noTag, "a request never carries NOTAG")
		if c.pendingMu.TryLock() {
			_, ok := c.pending[tg]
			n := len(c.pending)
			c.pendingMu.Unlock()
			verifAssert(ok, "the tag is registered as pending before its request can reach the peer")
			verifAssert(n == 1, "one call outstanding, one tag pending")
		}
	}
	idle := func(what string) {
		c.pendingMu.Lock()
		n := len(c.pending)
		c.pendingMu.Unlock()
		verifAssert(n == 0, "no tag stays pending after its call returned ("+what+")")
	}
	rf, err := c.Attach("")
	verifAssume(err == nil)
	idle("Attach")
	_, _, err = rf.Open(ReadWrite)
	verifAssume(err == nil)
	idle("Open")
	p := verifNondetBytes(verifChoice(3))
	_, err = rf.WriteAt(p, int64(verifChoice(2)))
	verifAssert(err == nil, "WriteAt answered")
	idle("WriteAt")
	q := make([]byte, 2)
	_, _ = rf.ReadAt(q, 0)
	idle("ReadAt")
	_, _, _, err = rf.GetAttr(AttrMaskAll)
	verifAssert(err == nil, "GetAttr answered")
	idle("GetAttr")
	err = rf.Close()
	verifAssert(err == nil, "Close answered")
	idle("Close")
	verifAssert(frames >= 6, "every call wrote a frame")
	verifReach("send-order-done")
}
