package p9

// VerifH_C10_FidLife: the life of fid numbers. A real Client talks to the real
// server (synchronous loop-back) over a backend whose calls may fail; the
// harness issues D arbitrary fid-allocating / fid-releasing client calls on
// arbitrary live Files and looks at every request frame before the server
// does: a request that binds a new fid (Tattach, Twalk, Twalkgetattr,
// Txattrwalk) must name a number the server does not have bound at that
// moment, and never NOFID.
func VerifH_C10_FidLife() {
	fs := &verifFS{walkMode: ModeDirectory}
	if verifChoice(2) == 1 {
		fs.xattr = []byte{7}
		fs.xattrs = []string{"a"}
	}
	c, l := verifLoopClient(fs, highestSupportedVersion)
	l.onRequest = func(fr []byte) {
		if len(fr) < 15 {
			return
		}
		le := func(b []byte) uint32 {
			return uint32(b[0]) | uint32(b[1])<<8 | uint32(b[2])<<16 | uint32(b[3])<<24
		}
		var nf uint32
		switch msgType(fr[4]) {
		case msgTattach:
			nf = le(fr[7:11])
		case msgTwalk, msgTwalkgetattr, msgTxattrwalk:
			nf = le(fr[11:15])
		default:
			return
		}
		verifReach("binding-request")
		verifAssert(fid(nf) != noFID, "a new fid is never NOFID")
		_, bound := l.cs.fids[fid(nf)]
		if bound {
			verifOut("reused fid", uint64(nf))
		}
		verifAssert(!bound, "a fid number is given to a new File only when the server no longer has it bound")
	}
	// the allocator starts anywhere (fid numbers are symbolic)
	start := verifNondetU64()
	verifAssume(start >= 1 && start <= uint64(noFID))
	c.fidPool = pool{start: start, limit: uint64(noFID)}
	var files []File
	fs.failAll = verifChoice(2) == 1
	root, err := c.Attach("")
	if err != nil {
		verifReach("attach-refused")
		fs.failAll = false
		root, err = c.Attach("")
		if err != nil {
			verifReach("out-of-fids")
			return
		}
	}
	fs.failAll = false
	files = append(files, root)
	D := verifParam("D", 3)
	for step := 0; step < D && len(files) > 0; step++ {
		k := verifChoice(len(files))
		f := files[k]
		fs.failAll = verifChoice(2) == 1
		switch verifChoice(7) {
		case 0:
			if _, nf, err := f.Walk(nil); err == nil {
				files = append(files, nf)
			} else {
				verifReach("bind-refused")
			}
		case 1:
			if _, nf, err := f.Walk([]string{"a"}); err == nil {
				files = append(files, nf)
			} else {
				verifReach("bind-refused")
			}
		case 2:
			if _, nf, _, _, err := f.WalkGetAttr([]string{"a"}); err == nil {
				files = append(files, nf)
			} else {
				verifReach("bind-refused")
			}
		case 3:
			if v, err := f.GetXattr("x"); err == nil && len(v) == 0 {
				verifReach("empty-xattr")
			}
		case 4:
			f.ListXattrs()
		case 5:
			f.Close()
			files = append(append([]File{}, files[:k]...), files[k+1:]...)
			verifReach("released")
		default:
			f.(*clientFile).Remove()
			files = append(append([]File{}, files[:k]...), files[k+1:]...)
			verifReach("released")
		}
	}
	verifReach("sequence-done")
}
