package p9

import "io"

// C11: chunked I/O.

type verifChunkCall struct {
	off int64
	ln  int
	n   int
	err bool
}

// VerifH_C11_Chunk: chunk() against the reference loop semantics, with
// chunk size, buffer length, offset and every callee result symbolic.
func VerifH_C11_Chunk() {
	cs := verifNondetU32()
	verifAssume(cs >= 1 && cs <= 1<<24)
	n := int(verifNondetU32())
	maxChunks := verifParam("K", 3)
	verifAssume(n >= 0 && uint64(n) <= uint64(maxChunks)*uint64(cs)+3 && n <= 1<<26)
	p := verifNondetBytesN(n)
	off := int64(verifNondetU64() >> 2)
	var calls []verifChunkCall
	sum := 0
	stopped := false
	fn := func(b []byte, o int64) (int, error) {
		// reference semantics: call k receives p[sum : min(sum+cs, len)] at off+sum
		want := n - sum
		if want > int(cs) {
			want = int(cs)
		}
		verifAssert(!stopped, "no call after a short or failed chunk")
		verifAssert(len(b) == want, "chunk length = min(chunk size, remaining)")
		verifAssert(o == off+int64(sum), "chunk offset = offset + bytes done")
		r := int(verifNondetU32())
		verifAssume(r >= 0 && r <= len(b))
		fail := verifNondetBool()
		calls = append(calls, verifChunkCall{o, len(b), r, fail})
		sum += r
		if fail || r < int(cs) {
			stopped = true
		}
		if fail {
			return r, verifErrWrite
		}
		return r, nil
	}
	total, err := chunk(cs, fn, p, off)
	verifReach("chunk-returned")
	verifAssert(total == sum, "result count = sum of chunk counts")
	last := calls[len(calls)-1]
	verifAssert((err != nil) == last.err, "error = the failing chunk's error")
	if n == 0 {
		verifReach("empty-buffer")
		verifAssert(len(calls) == 1, "empty buffer makes exactly one call")
	}
	if len(calls) >= 3 {
		verifReach("three-chunks")
	}
	if err == nil && !stopped {
		verifAssert(total == n, "all chunks accepted => n == len(p)")
	}
	if err == nil && total < n {
		verifAssert(last.n < last.ln || last.n < int(cs), "short result only after a short chunk")
	}
}

// verifByteFile is a byte-slice model of a remote file.
type verifByteFile struct {
	File
	data []byte
}

func (f *verifByteFile) ReadAt(p []byte, off int64) (int, error) {
	if off < 0 || off >= int64(len(f.data)) {
		return 0, io.EOF
	}
	n := copy(p, f.data[off:])
	if n < len(p) {
		return n, io.EOF
	}
	return n, nil
}
func (f *verifByteFile) WriteAt(p []byte, off int64) (int, error) {
	if off < 0 || off > 64 {
		return 0, verifErrWrite
	}
	for int64(len(f.data)) < off+int64(len(p)) {
		f.data = append(f.data, 0)
	}
	copy(f.data[off:], p)
	return len(p), nil
}
func (f *verifByteFile) Close() error { return nil }

// verifE2EFile is the remote file of the end-to-end harness: a byte slice;
// reads may come back short by `shortBy` bytes on the call numbered `shortAt`
// (a backend is allowed to do that), writes are stored at their offset.
type verifE2EFile struct {
	File
	data     []byte
	reads    int
	writes   int
	shortAt  int
	wshortAt int
	wrote    []verifChunkCall
	lastOff  int64
}

func (f *verifE2EFile) Open(OpenFlags) (QID, uint32, error) { return QID{}, 0, nil }
func (f *verifE2EFile) Close() error                        { return nil }
func (f *verifE2EFile) GetAttr(AttrMask) (QID, AttrMask, Attr, error) {
	return QID{Type: TypeRegular, Path: 1}, AttrMask{Mode: true}, Attr{Mode: ModeRegular | 0644}, nil
}
func (f *verifE2EFile) Walk(names []string) ([]QID, File, error) {
	// a clone shares the byte slice holder
	return nil, f, nil
}
func (f *verifE2EFile) ReadAt(p []byte, off int64) (int, error) {
	k := f.reads
	f.reads++
	if off < 0 || off >= int64(len(f.data)) {
		return 0, io.EOF
	}
	n := copy(p, f.data[off:])
	if k == f.shortAt && n > 1 {
		n--
	}
	return n, nil
}
func (f *verifE2EFile) WriteAt(p []byte, off int64) (int, error) {
	k := f.writes
	f.writes++
	n := len(p)
	if k == f.wshortAt && n > 0 {
		n--
	}
	for int64(len(f.data)) < off+int64(n) {
		f.data = append(f.data, 0)
	}
	copy(f.data[off:], p[:n])
	f.wrote = append(f.wrote, verifChunkCall{off: off, ln: len(p), n: n})
	return n, nil
}

type verifE2EAttacher struct{ f *verifE2EFile }

func (a verifE2EAttacher) Attach() (File, error) { return a.f, nil }

// VerifH_C11_EndToEnd: ReadAt/WriteAt of a real Client against the real
// server over the synchronous loop, with a payload limit of 1..3 bytes so
// that buffers of 0..N bytes need up to N chunks; file content, buffer
// content and the position of one short backend result are symbolic.
func VerifH_C11_EndToEnd() {
	f := &verifE2EFile{shortAt: -1, wshortAt: -1}
	s := NewServer(verifE2EAttacher{f})
	cs := verifNewConn(s)
	l := &verifLoop{cs: cs}
	c, err := NewClient(l, WithMessageSize(8192))
	verifAssume(err == nil)
	N := verifParam("N", 4)
	ps := 1 + verifChoice(verifParam("PS", 2))
	c.payloadSize = uint32(ps)
	rf, err := c.Attach("")
	verifAssume(err == nil)
	_, _, err = rf.Open(ReadWrite)
	verifAssume(err == nil)
	off := int64(verifChoice(3))
	if verifChoice(2) == 0 {
		// ReadAt
		f.data = verifNondetBytes(verifChoice(N + 1))
		p := make([]byte, verifChoice(N+1))
		if verifChoice(2) == 1 {
			f.shortAt = verifChoice(2)
		}
		n, err := rf.ReadAt(p, off)
		verifReach("read-done")
		avail := 0
		if off < int64(len(f.data)) {
			avail = len(f.data) - int(off)
		}
		verifAssert(n >= 0 && n <= len(p) && n <= avail, "ReadAt count within the buffer and the file")
		for i := 0; i < n; i++ {
			verifAssert(p[i] == f.data[int(off)+i], "ReadAt delivers the file's bytes from the offset, in order")
		}
		verifAssert(err == nil || err == io.EOF, "ReadAt reports nothing but io.EOF here")
		if err == io.EOF {
			verifAssert(n < len(p), "io.EOF only if fewer than len(p) bytes were delivered")
		}
		if n == 0 && len(p) > 0 {
			verifAssert(err == io.EOF, "io.EOF always when nothing was delivered for a non-empty p")
		}
		if f.shortAt < 0 {
			want := avail
			if want > len(p) {
				want = len(p)
			}
			verifAssert(n == want, "without short backend reads p is filled up to end of file")
			if len(p) >= 2*ps+1 && avail >= len(p) {
				verifReach("read-three-chunks")
			}
		} else if n < len(p) && n < avail {
			// stopped early: only at the short chunk
			verifAssert(f.reads >= f.shortAt+1, "ReadAt stops early only at a short chunk")
		}
		verifAssert(f.reads >= 1, "even an empty buffer makes one remote read")
	} else {
		// WriteAt
		p := verifNondetBytes(verifChoice(N + 1))
		if verifChoice(2) == 1 {
			f.wshortAt = verifChoice(2)
		}
		n, err := rf.WriteAt(p, off)
		verifReach("write-done")
		verifAssert(err == nil, "WriteAt without backend error reports none")
		verifAssert(n >= 0 && n <= len(p), "WriteAt count within the buffer")
		if f.wshortAt < 0 {
			verifAssert(n == len(p), "n = len(p) when the backend accepts everything")
		}
		// the file holds exactly p[:n] at the offset, and nothing beyond
		verifAssert(len(f.data) == 0 && n == 0 || int64(len(f.data)) == off+int64(n), "WriteAt stores nothing beyond p[:n]")
		for i := 0; i < n; i++ {
			verifAssert(f.data[int(off)+i] == p[i], "WriteAt stores exactly p[:n] at the offset")
		}
		sum := 0
		for k, w := range f.wrote {
			verifAssert(w.off == off+int64(sum), "chunks are issued in order at offset + bytes done")
			verifAssert(w.ln <= ps, "each chunk within the payload limit")
			if k > 0 {
				prev := f.wrote[k-1]
				verifAssert(prev.n == prev.ln && prev.n == ps, "no chunk after a short one")
			}
			sum += w.n
		}
		verifAssert(sum == n, "result count = sum of accepted chunk counts")
		if len(f.wrote) >= 3 {
			verifReach("write-three-chunks")
		}
	}
}
