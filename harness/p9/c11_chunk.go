package p9

import "io"

// C11: chunked I/O.

type verifChunkCall struct {
	off int64
	ln  int
	n   int
	err bool
}

// VerifH_C11_Chunk: chunk() against the reference loop semantics, with
// chunk size, buffer length, offset and every callee result symbolic.
func VerifH_C11_Chunk() {
	cs := verifNondetU32()
	verifAssume(cs >= 1 && cs <= 1<<24)
	n := int(verifNondetU32())
	maxChunks := verifParam("K", 3)
	verifAssume(n >= 0 && uint64(n) <= uint64(maxChunks)*uint64(cs)+3 && n <= 1<<26)
	p := verifNondetBytesN(n)
	off := int64(verifNondetU64() >> 2)
	var calls []verifChunkCall
	sum := 0
	stopped := false
	fn := func(b []byte, o int64) (int, error) {
		// reference semantics: call k receives p[sum : min(sum+cs, len)] at off+sum
		want := n - sum
		if want > int(cs) {
			want = int(cs)
		}
		verifAssert(!stopped, "no call after a short or failed chunk")
		verifAssert(len(b) == want, "chunk length = min(chunk size, remaining)")
		verifAssert(o == off+int64(sum), "chunk offset = offset + bytes done")
		r := int(verifNondetU32())
		verifAssume(r >= 0 && r <= len(b))
		fail := verifNondetBool()
		calls = append(calls, verifChunkCall{o, len(b), r, fail})
		sum += r
		if fail || r < int(cs) {
			stopped = true
		}
		if fail {
			return r, verifErrWrite
		}
		return r, nil
	}
	total, err := chunk(cs, fn, p, off)
	verifReach("chunk-returned")
	verifAssert(total == sum, "result count = sum of chunk counts")
	last := calls[len(calls)-1]
	verifAssert((err != nil) == last.err, "error = the failing chunk's error")
	if n == 0 {
		verifReach("empty-buffer")
		verifAssert(len(calls) == 1, "empty buffer makes exactly one call")
	}
	if len(calls) >= 3 {
		verifReach("three-chunks")
	}
	if err == nil && !stopped {
		verifAssert(total == n, "all chunks accepted => n == len(p)")
	}
	if err == nil && total < n {
		verifAssert(last.n < last.ln || last.n < int(cs), "short result only after a short chunk")
	}
}

// verifByteFile is a byte-slice model of a remote file.
type verifByteFile struct {
	File
	data []byte
}

func (f *verifByteFile) ReadAt(p []byte, off int64) (int, error) {
	if off < 0 || off >= int64(len(f.data)) {
		return 0, io.EOF
	}
	n := copy(p, f.data[off:])
	if n < len(p) {
		return n, io.EOF
	}
	return n, nil
}
func (f *verifByteFile) WriteAt(p []byte, off int64) (int, error) {
	if off < 0 || off > 64 {
		return 0, verifErrWrite
	}
	for int64(len(f.data)) < off+int64(len(p)) {
		f.data = append(f.data, 0)
	}
	copy(f.data[off:], p)
	return len(p), nil
}
func (f *verifByteFile) Close() error { return nil }
