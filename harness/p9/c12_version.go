package p9

import "io"

// C12: version and msize negotiation.

// specParseVersion: independent parser of the grammar
//
//	9P2000.L | 9P2000.L.Google.<1+ decimal digits>
//
// known=false for anything else. huge: the numeral does not fit 32 bits.
func specParseVersion(s string) (known bool, n uint64, huge bool) {
	if s == "9P2000.L" {
		return true, 0, false
	}
	const pre = "9P2000.L.Google."
	if len(s) <= len(pre) || s[:len(pre)] != pre {
		return false, 0, false
	}
	for i := len(pre); i < len(s); i++ {
		c := s[i]
		if c < '0' || c > '9' {
			return false, 0, false
		}
		if !huge {
			n = n*10 + uint64(c-'0')
			if n >= 1<<32 {
				huge = true
			}
		}
	}
	return true, n, huge
}

func specCanonVersion(n uint64) string {
	switch n {
	case 0:
		return "9P2000.L"
	case 1:
		return "9P2000.L.Google.1"
	case 2:
		return "9P2000.L.Google.2"
	case 3:
		return "9P2000.L.Google.3"
	case 4:
		return "9P2000.L.Google.4"
	case 5:
		return "9P2000.L.Google.5"
	case 6:
		return "9P2000.L.Google.6"
	}
	return "9P2000.L.Google.7"
}

func verifVersionString() string {
	switch verifChoice(3) {
	case 0:
		// arbitrary bytes
		return verifNondetString(verifChoice(verifParam("VL", 9) + 1))
	case 1:
		// extension family with arbitrary tail
		return "9P2000.L.Google." + verifNondetString(verifChoice(verifParam("VT", 4)+1))
	default:
		other := []string{"9P2000.L", "9P2000.u", "9P2000", "9P2000.L.Google", "9P2000.L.Google.", "9p2000.L", "9P2000.L.google.1", "9P2000.L.Google.1.2", "9P2000.L.Google.4294967295", "9P2000.L.Google.4294967296", "9P2000.L.Google.007", "unknown", ""}
		return other[verifChoice(len(other))]
	}
}

// VerifH_C12_Server: Tversion always gets an Rversion with the specified content.
func VerifH_C12_Server() {
	s := NewServer(&verifAttacher{})
	cs := verifNewConn(s)
	msize := verifNondetU32()
	vs := verifVersionString()
	reply := cs.handle(&tversion{MSize: msize, Version: vs})
	rv, ok := reply.(*rversion)
	verifAssert(ok, "Tversion answered by Rversion, never an error")
	if !ok {
		return
	}
	known, n, huge := specParseVersion(vs)
	if !known || msize == 0 {
		verifReach("unknown")
		verifAssert(rv.Version == "unknown" && rv.MSize == 0, "unknown version or zero msize -> (unknown, 0)")
		verifAssert(cs.messageSize == 0 && cs.version == 0, "nothing stored for a refused negotiation")
		return
	}
	if huge {
		verifReach("huge-numeral")
		// numerals >= 2^32: either refused or clamped to 7 (statement does not fix it)
		verifAssert((rv.Version == "unknown" && rv.MSize == 0) || rv.Version == specCanonVersion(7), "huge numeral refused or clamped")
		return
	}
	verifReach("known")
	want := msize
	if want > 4*1024*1024 {
		want = 4 * 1024 * 1024
	}
	if n > 7 {
		n = 7
	}
	verifAssert(rv.MSize == want, "msize = min(requested, 4MiB)")
	verifAssert(rv.Version == specCanonVersion(n), "version = canonical spelling of min(N,7)")
	bv, pn, pok := parseVersion(rv.Version)
	verifAssert(pok && bv == version9P2000L && uint64(pn) == n, "reply parses back to the same number")
	verifAssert(cs.messageSize == want && uint64(cs.version) == n, "negotiated values stored")
}

// verifScriptConn answers every request frame with a scripted Rversion.
type verifScriptConn struct {
	req    []byte
	reply  []byte
	pos    int
	msize  uint32
	vers   string
	writes int
	closed bool
}

func (c *verifScriptConn) Write(p []byte) (int, error) {
	c.writes++
	c.req = append(c.req, p...)
	return len(p), nil
}

func (c *verifScriptConn) Read(p []byte) (int, error) {
	if c.pos >= len(c.reply) {
		if len(c.req) < 7 {
			return 0, io.EOF
		}
		tg := uint16(c.req[5]) | uint16(c.req[6])<<8
		c.req = nil
		f, _, _ := specFrame(tg, &rversion{MSize: c.msize, Version: c.vers})
		c.reply = f
		c.pos = 0
	}
	n := copy(p, c.reply[c.pos:])
	c.pos += n
	return n, nil
}

func (c *verifScriptConn) Close() error { c.closed = true; return nil }

// VerifH_C12_Client: NewClient against a peer whose Rversion carries an
// arbitrary (msize, version string).
func VerifH_C12_Client() {
	conn := &verifScriptConn{msize: verifNondetU32(), vers: verifVersionString()}
	c, err := NewClient(conn)
	known, n, huge := specParseVersion(conn.vers)
	if !known {
		verifReach("client-refuses")
		verifAssert(err != nil && c == nil, "NewClient fails when the reply is not a 9P2000.L version")
		return
	}
	if huge {
		return
	}
	if conn.msize <= 153 {
		// an announced msize that cannot hold one byte of payload may be refused
		verifReach("tiny-msize")
		if err != nil {
			return
		}
	}
	verifReach("client-accepts")
	verifAssert(err == nil && c != nil, "NewClient accepts a 9P2000.L reply")
	if err != nil {
		return
	}
	verifAssert(uint64(c.Version()) == n, "client adopts the version of the reply")
}
