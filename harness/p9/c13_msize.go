package p9

import "io"

// C13: negotiated msize is never exceeded.

// verifSizedFile is a backend whose ReadAt/Readdir return nondeterministic
// results constrained only by the File documentation.
type verifSizedFile struct {
	File
	readCalls int
	lastLen   int
	entries   Dirents
}

func (f *verifSizedFile) ReadAt(p []byte, offset int64) (int, error) {
	f.readCalls++
	f.lastLen = len(p)
	n := int(verifNondetU32())
	verifAssume(n >= 0 && n <= len(p))
	return n, nil
}

func (f *verifSizedFile) Readdir(offset uint64, count uint32) (Dirents, error) {
	return f.entries, nil
}

func (f *verifSizedFile) Close() error { return nil }

func verifNegotiate(cs *connState, msize uint32) uint32 {
	r := (&tversion{MSize: msize, Version: "9P2000.L"}).handle(cs)
	rv, ok := r.(*rversion)
	verifAssert(ok, "Tversion answered by Rversion")
	verifAssume(rv.MSize != 0)
	return rv.MSize
}

// VerifH_C13_ServerRread: msize and Tread count fully symbolic.
func VerifH_C13_ServerRread() {
	f := &verifSizedFile{}
	s := NewServer(&verifAttacher{f})
	cs := verifNewConn(s)
	msize := verifNondetU32()
	negotiated := verifNegotiate(cs, msize)
	// The Tread frame itself (23 bytes) was accepted by recv, so msize >= 23.
	verifAssume(negotiated >= 23)
	flags := OpenFlags(verifNondetU32())
	verifAssume(flags&OpenFlagsModeMask != WriteOnly)
	ref := &fidRef{server: s, file: f, refs: 1, opened: true, openFlags: flags, mode: ModeRegular, pathNode: s.pathTree}
	cs.fids[1] = ref
	count := verifNondetU32()
	off := verifNondetU64()
	reply := cs.handle(&tread{fid: 1, Offset: off, Count: count})
	w := &verifRecWriter{}
	err := send(verifLog, w, 5, reply)
	verifAssert(err == nil, "reply sent")
	if _, isErr := reply.(*rlerror); isErr {
		verifReach("rread-refused")
	} else {
		verifReach("rread-sent")
		if f.readCalls > 0 && uint32(f.lastLen) < count {
			verifReach("rread-shortened")
		}
	}
	verifAssert(w.total <= uint64(negotiated), "Rread frame <= negotiated msize")
	verifAssert(uint64(verifHdrSize(w.hdr)) == w.total, "size field == bytes written")
	if count <= negotiated-11 {
		_, isErr := reply.(*rlerror)
		verifAssert(!isErr, "a count that fits is served")
		verifAssert(f.readCalls == 1 && uint32(f.lastLen) == count, "backend asked for the requested count when it fits")
	}
}

// ---- client side ----

// verifPeer is a scripted 9P peer: it announces (msize, version) and then
// answers Twrite/Tread/Tclunk/Txattrwalk like a server would, recording the
// size of every request frame.
type verifPeer struct {
	msize   uint32
	vers    string
	hdr     []byte // first write of the current request (7 bytes)
	fixed   []byte // second write (fixed part)
	nwrites int
	reqLen  uint64
	reply   []byte
	pos     int

	// observations
	requests   int
	maxReq     uint64 // largest request frame seen after negotiation
	maxReply   uint64 // largest reply frame a read request allows
	fileSize   uint64 // bytes available to reads
	shortWrite bool
}

func (c *verifPeer) Write(p []byte) (int, error) {
	c.nwrites++
	switch c.nwrites {
	case 1:
		c.hdr = append([]byte(nil), p...)
	case 2:
		c.fixed = append([]byte(nil), p...)
	}
	c.reqLen += uint64(len(p))
	return len(p), nil
}

func verifLE32(b []byte) uint32 {
	return uint32(b[0]) | uint32(b[1])<<8 | uint32(b[2])<<16 | uint32(b[3])<<24
}

func (c *verifPeer) Read(p []byte) (int, error) {
	if c.pos >= len(c.reply) {
		if len(c.hdr) != 7 {
			return 0, io.EOF
		}
		tg := uint16(c.hdr[5]) | uint16(c.hdr[6])<<8
		typ := c.hdr[4]
		var m message
		switch typ {
		case 100:
			m = &rversion{MSize: c.msize, Version: c.vers}
		case 118: // Twrite: fid[4] offset[8] count[4]
			cnt := verifLE32(c.fixed[12:16])
			m = &rwrite{Count: cnt}
		case 116: // Tread: fid[4] offset[8] count[4]
			cnt := verifLE32(c.fixed[12:16])
			if uint64(cnt)+11 > c.maxReply {
				c.maxReply = uint64(cnt) + 11
			}
			m = &rread{Data: nil}
		case 120:
			m = &rclunk{}
		default:
			m = &rlerror{Error: 5}
		}
		if typ != 100 {
			c.requests++
			if c.reqLen > c.maxReq {
				c.maxReq = c.reqLen
			}
			verifAssert(uint64(verifLE32(c.hdr[0:4])) == c.reqLen, "request size field == bytes written")
		}
		c.hdr, c.fixed, c.nwrites, c.reqLen = nil, nil, 0, 0
		f, _, _ := specFrame(tg, m)
		c.reply = f
		c.pos = 0
	}
	n := copy(p, c.reply[c.pos:])
	c.pos += n
	return n, nil
}

func (c *verifPeer) Close() error { return nil }

// VerifH_C13_ClientWrite: after negotiating with a peer that announces an
// arbitrary msize, every Twrite produced by WriteAt fits in that msize.
func VerifH_C13_ClientWrite() {
	peer := &verifPeer{msize: verifNondetU32(), vers: "9P2000.L"}
	req := verifNondetU32()
	verifAssume(req > 153)
	c, err := NewClient(peer, WithMessageSize(req))
	if err != nil {
		verifReach("client-refused-msize")
		return
	}
	verifReach("negotiated")
	announced := peer.msize
	// a server never raises msize above what the client offered
	verifAssume(announced <= req)
	f := c.newFile(1)
	n := int(verifNondetU32())
	verifAssume(n >= 0 && n <= 1<<24)
	// bound the number of chunks so that the chunk loop unwinds
	verifAssume(uint64(n) <= 3*uint64(c.payloadSize))
	p := verifNondetBytesN(n)
	off := int64(verifNondetU64() >> 2)
	wn, werr := f.WriteAt(p, off)
	verifAssert(werr == nil && wn == n, "WriteAt against an accepting peer writes everything")
	if peer.requests > 1 {
		verifReach("chunked")
	}
	verifAssert(peer.maxReq <= uint64(announced), "every Twrite frame <= announced msize")
}

// VerifH_C13_ClientRead: every Tread asks for a count whose reply fits.
func VerifH_C13_ClientRead() {
	peer := &verifPeer{msize: verifNondetU32(), vers: "9P2000.L"}
	req := verifNondetU32()
	verifAssume(req > 153)
	c, err := NewClient(peer, WithMessageSize(req))
	if err != nil {
		verifReach("client-refused-msize")
		return
	}
	verifReach("negotiated")
	announced := peer.msize
	verifAssume(announced <= req)
	f := c.newFile(1)
	n := int(verifNondetU32())
	verifAssume(n >= 0 && n <= 1<<24)
	p := verifNondetBytesN(n)
	_, _ = f.ReadAt(p, 0)
	verifReach("read-issued")
	verifAssert(peer.maxReq <= uint64(announced), "every Tread frame <= announced msize")
	verifAssert(peer.maxReply <= uint64(announced), "every Tread count + 11 <= announced msize")
}

// VerifH_C13_ServerRreaddir: msize and Treaddir count symbolic, directory of
// 0..3 entries with names of 1..2 bytes.
func VerifH_C13_ServerRreaddir() {
	f := &verifSizedFile{}
	s := NewServer(&verifAttacher{f})
	cs := verifNewConn(s)
	msize := verifNondetU32()
	negotiated := verifNegotiate(cs, msize)
	verifAssume(negotiated >= 23)
	ne := verifChoice(verifParam("E", 3) + 1)
	for i := 0; i < ne; i++ {
		var d Dirent
		verifHavoc(&d, 1+verifChoice(2), 0, 0)
		f.entries = append(f.entries, d)
	}
	ref := &fidRef{server: s, file: f, refs: 1, opened: true, openFlags: ReadOnly, mode: ModeDirectory, pathNode: s.pathTree}
	cs.fids[1] = ref
	count := verifNondetU32()
	reply := cs.handle(&treaddir{Directory: 1, Offset: verifNondetU64(), Count: count})
	w := &verifRecWriter{}
	err := send(verifLog, w, 5, reply)
	verifAssert(err == nil, "reply sent")
	verifReach("rreaddir-sent")
	verifAssert(w.total <= uint64(negotiated), "Rreaddir frame <= negotiated msize")
	verifAssert(uint64(verifHdrSize(w.hdr)) == w.total, "size field == bytes written")
	if w.total > 11 {
		verifReach("entries-listed")
	}
	if rd, ok := reply.(*rreaddir); ok && ne > 0 && uint64(count) >= uint64(specDirentSize(f.entries[0])) && uint64(negotiated) >= 11+uint64(specDirentSize(f.entries[0])) {
		verifAssert(rd.Count > 0, "when one entry fits both the count and the msize, at least one entry is listed")
	}
}

// VerifH_C13_ServerRreadXattr: Tread on an attribute fid (bound by
// Txattrwalk; the value sits in the fid's buffer). msize, count and offset
// symbolic; the value is XL arbitrary bytes (longer than small msizes allow
// in one reply).
func VerifH_C13_ServerRreadXattr() {
	f := &verifSizedFile{}
	s := NewServer(&verifAttacher{f})
	cs := verifNewConn(s)
	msize := verifNondetU32()
	negotiated := verifNegotiate(cs, msize)
	verifAssume(negotiated >= 23)
	xl := verifParam("XL", 96)
	val := verifNondetBytes(xl)
	ref := &fidRef{server: s, file: f, refs: 1, mode: ModeRegular, pathNode: s.pathTree,
		pendingXattr: pendingXattr{op: xattrWalk, name: "user.x", size: uint64(xl), buf: val}}
	cs.fids[1] = ref
	count := verifNondetU32()
	off := verifNondetU64()
	reply := cs.handle(&tread{fid: 1, Offset: off, Count: count})
	w := &verifRecWriter{}
	err := send(verifLog, w, 5, reply)
	verifAssert(err == nil, "reply sent")
	verifAssert(w.total <= uint64(negotiated), "Rread (attribute fid) frame <= negotiated msize")
	verifAssert(uint64(verifHdrSize(w.hdr)) == w.total, "size field == bytes written")
	if _, isErr := reply.(*rlerror); isErr {
		verifReach("xattr-read-refused")
		return
	}
	verifReach("xattr-read-sent")
	if uint64(negotiated) < uint64(xl)+11 && count > negotiated-11 {
		verifReach("xattr-read-shortened")
	}
	// what is sent lies inside the value
	verifAssert(w.total >= 11 && off+(w.total-11) <= uint64(xl), "attribute read stays inside the value")
}
