package p9

// C13: negotiated msize is never exceeded.

// verifSizedFile is a backend whose ReadAt/Readdir return nondeterministic
// results constrained only by the File documentation.
type verifSizedFile struct {
	File
	readCalls int
	lastLen   int
	entries   Dirents
}

func (f *verifSizedFile) ReadAt(p []byte, offset int64) (int, error) {
	f.readCalls++
	f.lastLen = len(p)
	n := int(verifNondetU32())
	verifAssume(n >= 0 && n <= len(p))
	return n, nil
}

func (f *verifSizedFile) Readdir(offset uint64, count uint32) (Dirents, error) {
	return f.entries, nil
}

func (f *verifSizedFile) Close() error { return nil }

func verifNegotiate(cs *connState, msize uint32) uint32 {
	r := (&tversion{MSize: msize, Version: "9P2000.L"}).handle(cs)
	rv, ok := r.(*rversion)
	verifAssert(ok, "Tversion answered by Rversion")
	verifAssume(rv.MSize != 0)
	return rv.MSize
}

// VerifH_C13_ServerRread: msize and Tread count fully symbolic.
func VerifH_C13_ServerRread() {
	f := &verifSizedFile{}
	s := NewServer(&verifAttacher{f})
	cs := verifNewConn(s)
	msize := verifNondetU32()
	negotiated := verifNegotiate(cs, msize)
	// The Tread frame itself (23 bytes) was accepted by recv, so msize >= 23.
	verifAssume(negotiated >= 23)
	flags := OpenFlags(verifNondetU32())
	verifAssume(flags&OpenFlagsModeMask != WriteOnly)
	ref := &fidRef{server: s, file: f, refs: 1, opened: true, openFlags: flags, mode: ModeRegular, pathNode: s.pathTree}
	cs.fids[1] = ref
	count := verifNondetU32()
	off := verifNondetU64()
	reply := cs.handle(&tread{fid: 1, Offset: off, Count: count})
	w := &verifRecWriter{}
	err := send(verifLog, w, 5, reply)
	verifAssert(err == nil, "reply sent")
	if _, isErr := reply.(*rlerror); isErr {
		verifReach("rread-refused")
	} else {
		verifReach("rread-sent")
		if f.readCalls > 0 && uint32(f.lastLen) < count {
			verifReach("rread-shortened")
		}
	}
	verifAssert(w.total <= uint64(negotiated), "Rread frame <= negotiated msize")
	verifAssert(uint64(verifHdrSize(w.hdr)) == w.total, "size field == bytes written")
	if count <= negotiated-11 {
		_, isErr := reply.(*rlerror)
		verifAssert(!isErr, "a count that fits is served")
		verifAssert(f.readCalls == 1 && uint32(f.lastLen) == count, "backend asked for the requested count when it fits")
	}
}
