package p9

import "io"

// C17: stream segmentation independence (generic io.Reader path).

// verifSegmenter serves a stream in nondeterministically chosen segments,
// within the io.Reader contract: 1 <= n <= min(len(p), left) with nil, or the
// final bytes together with io.EOF, or (0, io.EOF) at the end.
type verifSegmenter struct {
	data    []byte
	pos     int
	shorts  int // remaining budget of short reads
	reads   int
	past    bool // a Read was issued with nothing left and no frame pending
	eofData bool // deliver the last bytes together with io.EOF
}

func (r *verifSegmenter) Read(p []byte) (int, error) {
	r.reads++
	left := len(r.data) - r.pos
	if left == 0 {
		return 0, io.EOF
	}
	if len(p) == 0 {
		return 0, nil
	}
	want := len(p)
	if want > left {
		want = left
	}
	n := want
	if r.shorts > 0 && want > 1 {
		switch verifChoice(4) {
		case 1:
			n = 1
		case 2:
			n = want - 1
		case 3:
			n = (want + 1) / 2
		}
		if n != want {
			r.shorts--
		}
	}
	copy(p, r.data[r.pos:r.pos+n])
	r.pos += n
	if r.pos == len(r.data) && r.eofData {
		return n, io.EOF
	}
	return n, nil
}

func verifTwoFrames() ([]byte, *tclunk, *twrite, uint16, uint16, int) {
	a := &tclunk{}
	verifHavoc(a, 0, 0, 0)
	b := &twrite{}
	verifHavoc(b, 0, 0, 3)
	ta, tb := verifNondetU16(), verifNondetU16()
	fa, _, _ := specFrame(ta, a)
	fb, _, _ := specFrame(tb, b)
	var stream []byte
	first := len(fb)
	if verifChoice(2) == 0 {
		stream = append(append(stream, fa...), fb...)
		first = len(fa)
	} else {
		stream = append(append(stream, fb...), fa...)
	}
	return stream, a, b, ta, tb, first
}

// VerifH_C17_Generic: any segmentation of a two-frame stream yields the same
// two messages; every variant of end-of-stream signalling after a complete
// frame still delivers it.
func VerifH_C17_Generic() {
	stream, a, b, ta, tb, _ := verifTwoFrames()
	r := &verifSegmenter{data: stream, shorts: verifParam("S", 2), eofData: verifChoice(2) == 1}
	for k := 0; k < 2; k++ {
		tg, m, err := recv(verifLog, r, 1<<16, msgDotLRegistry.get)
		verifAssert(err == nil, "complete frame delivered whatever the segmentation")
		if err != nil {
			return
		}
		switch x := m.(type) {
		case *tclunk:
			verifAssert(uint16(tg) == ta && verifEqual(x, a), "Tclunk identical to one-segment delivery")
		case *twrite:
			verifAssert(uint16(tg) == tb && verifEqual(x, b), "Twrite and its payload identical to one-segment delivery")
		default:
			verifAssert(false, "unexpected message type")
		}
	}
	verifReach("both-delivered")
	if r.eofData {
		verifReach("data-with-eof")
	}
	verifAssert(r.pos == len(stream), "stream consumed exactly")
	_, _, err := recv(verifLog, r, 1<<16, msgDotLRegistry.get)
	_, isConn := err.(ConnError)
	verifAssert(isConn, "end of stream is a connection error")
}

// VerifH_C17_Truncated: a stream cut inside a frame gives ConnError, never a message.
func VerifH_C17_Truncated() {
	stream, _, _, _, _, first := verifTwoFrames()
	cut := verifChoice(len(stream)) // 0..len-1 bytes delivered
	r := &verifSegmenter{data: stream[:cut], shorts: verifParam("S", 1), eofData: verifChoice(2) == 1}
	delivered := 0
	for k := 0; k < 2; k++ {
		_, m, err := recv(verifLog, r, 1<<16, msgDotLRegistry.get)
		if err != nil {
			_, isConn := err.(ConnError)
			verifAssert(isConn && m == nil, "cut stream yields a connection error and no message")
			break
		}
		delivered++
	}
	verifReach("cut")
	want := 0
	if cut >= first {
		want = 1
	}
	verifAssert(delivered == want, "exactly the complete frames before the cut are delivered")
}
