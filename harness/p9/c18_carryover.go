package p9

// C18: no carry-over between messages through recycled objects and buffers.

func verifMsgOfShape(t uint8, sl, ll, pl int) (message, []byte, uint16) {
	m := verifFreshMsg(t)
	verifHavoc(m, sl, ll, pl)
	if rd, ok := m.(*rreaddir); ok {
		total := 0
		for _, d := range rd.Entries {
			total += specDirentSize(d)
		}
		rd.Count = uint32(total)
	}
	specCanon(m)
	tg := verifNondetU16()
	f, _, _ := specFrame(tg, m)
	return m, f, tg
}

// types whose decoded form holds lists, strings or payload
var verifCarryTypes = []uint8{110, 111, 126, 127, 41, 117, 118, 104, 100, 16, 74, 23, 52}

// VerifH_C18_DecodeRecycled: decode frame A, recycle the message object,
// decode frame B of the same type (any shape) into the recycled object: B's
// decoded value is a function of B's bytes alone.
func VerifH_C18_DecodeRecycled() {
	t := verifCarryTypes[verifChoice(len(verifCarryTypes))]
	L, N, P := verifParam("L", 2), verifParam("N", 2), verifParam("P", 3)
	// A: long
	_, fa, _ := verifMsgOfShape(t, L, N, P)
	// B: any shape (shorter, empty, equal)
	sl, ll, pl := verifChoice(L+1), verifChoice(N+1), verifChoice(P+1)
	// build B from a separate fresh object so that A and B share nothing
	mb, fb, tb := verifMsgOfShape(t, sl, ll, pl)
	twoConns := verifChoice(2) == 1
	ra := &verifSegReader{data: fa}
	_, m1, err := recv(verifLog, ra, 1<<16, msgDotLRegistry.get)
	verifAssert(err == nil, "frame A decodes")
	if err != nil {
		return
	}
	msgDotLRegistry.put(m1)
	// the same process-wide registry serves a second connection
	rb := &verifSegReader{data: fb}
	if twoConns {
		verifReach("other-connection")
	}
	tg2, m2, err := recv(verifLog, rb, 1<<16, msgDotLRegistry.get)
	verifAssert(err == nil, "frame B decodes")
	if err != nil {
		return
	}
	if m2 == m1 {
		verifReach("object-recycled")
	}
	verifAssert(uint16(tg2) == tb, "tag of B")
	verifAssert(verifEqual(m2, mb), "decoded B equals the values encoded in B alone")
}

// VerifH_C18_DecodeAliasing: two messages alive at once do not alias.
func VerifH_C18_DecodeAliasing() {
	t := verifCarryTypes[verifChoice(len(verifCarryTypes))]
	L, N, P := verifParam("L", 2), verifParam("N", 2), verifParam("P", 3)
	ma, fa, _ := verifMsgOfShape(t, L, N, P)
	mb, fb, _ := verifMsgOfShape(t, verifChoice(L+1), verifChoice(N+1), verifChoice(P+1))
	_, m1, err := recv(verifLog, &verifSegReader{data: fa}, 1<<16, msgDotLRegistry.get)
	verifAssume(err == nil)
	_, m2, err := recv(verifLog, &verifSegReader{data: fb}, 1<<16, msgDotLRegistry.get)
	verifAssume(err == nil)
	verifReach("both-alive")
	verifAssert(verifEqual(m2, mb), "second message decoded from its own frame")
	verifAssert(verifEqual(m1, ma), "first message unchanged by decoding the second")
}

// VerifH_C18_SendRecycled: the encode buffer pool does not leak bytes of an
// earlier, longer message into a later one.
func VerifH_C18_SendRecycled() {
	long := []uint8{25, 110, 41, 127, 104}
	ta := long[verifChoice(len(long))]
	ma := verifFreshMsg(ta)
	verifHavoc(ma, 2, 2, 2)
	w1 := &verifRecWriter{keep: true}
	verifAssume(send(verifLog, w1, 1, ma) == nil)
	tb := verifCarryTypes[verifChoice(len(verifCarryTypes))]
	mb := verifFreshMsg(tb)
	verifHavoc(mb, verifChoice(3), verifChoice(3), verifChoice(3))
	tg := verifNondetU16()
	want, _, _ := specFrame(tg, mb)
	w2 := &verifRecWriter{keep: true}
	err := send(verifLog, w2, tag(tg), mb)
	verifReach("second-send")
	verifAssert(err == nil && verifBytesDiff(w2.data, want) == 0, "second frame is exactly the specified bytes of the second message")
}

// verifPatternFile writes nondeterministic bytes and reports how many.
type verifPatternFile struct {
	File
	last []byte
}

func (f *verifPatternFile) ReadAt(p []byte, off int64) (int, error) {
	k := verifChoice(len(p) + 1)
	b := verifNondetBytes(k)
	copy(p, b)
	f.last = b
	return k, nil
}
func (f *verifPatternFile) Close() error { return nil }

// VerifH_C18_ReadBuffer: two Treads through the connection's read-buffer
// pool, the second one shorter: each Rread carries exactly the bytes the
// backend produced for that request.
func VerifH_C18_ReadBuffer() {
	f := &verifPatternFile{}
	s := NewServer(&verifAttacher{f})
	cs := verifNewConn(s)
	r := cs.handle(&tversion{MSize: 64, Version: "9P2000.L"})
	_, ok := r.(*rversion)
	verifAssume(ok)
	cs.fids[1] = &fidRef{server: s, file: f, refs: 1, opened: true, openFlags: ReadOnly, mode: ModeRegular, pathNode: s.pathTree}
	C := verifParam("RC", 4)
	for round := 0; round < 2; round++ {
		cnt := uint32(C)
		if round == 1 {
			cnt = uint32(verifChoice(C + 1))
		}
		reply := cs.handle(&tread{fid: 1, Offset: verifNondetU64(), Count: cnt})
		produced := f.last
		tg := verifNondetU16()
		want, _, _ := specFrame(tg, &rread{Data: produced})
		w := &verifRecWriter{keep: true}
		err := send(verifLog, w, tag(tg), reply)
		verifAssert(err == nil && verifBytesDiff(w.data, want) == 0, "Rread data is exactly the bytes the backend produced for this request")
	}
	verifReach("two-reads")
}
