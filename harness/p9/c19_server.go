package p9

// C19 through the server: a directory listed by repeated client Readdir calls
// against the real server (Treaddir handler, Rreaddir truncation to whole
// entries within the requested count, real decode on the client side).

type verifE2EDir struct {
	File
	entries []Dirent
}

func (f *verifE2EDir) Open(OpenFlags) (QID, uint32, error) { return QID{Type: TypeDir}, 0, nil }
func (f *verifE2EDir) Close() error                        { return nil }
func (f *verifE2EDir) GetAttr(AttrMask) (QID, AttrMask, Attr, error) {
	return QID{Type: TypeDir, Path: 1}, AttrMask{Mode: true}, Attr{Mode: ModeDirectory | 0755}, nil
}
func (f *verifE2EDir) Walk(names []string) ([]QID, File, error) { return nil, f, nil }

// Readdir returns every entry after `offset` (a backend may return more than
// `count` bytes' worth: the server shortens the reply).
func (f *verifE2EDir) Readdir(offset uint64, count uint32) (Dirents, error) {
	var out Dirents
	for _, d := range f.entries {
		if d.Offset > offset {
			out = append(out, d)
		}
	}
	return out, nil
}

type verifE2EDirAttacher struct{ f *verifE2EDir }

func (a verifE2EDirAttacher) Attach() (File, error) { return a.f, nil }

func VerifH_C19_ServerPaging() {
	f := &verifE2EDir{}
	s := NewServer(verifE2EDirAttacher{f})
	cs := verifNewConn(s)
	l := &verifLoop{cs: cs}
	c, err := NewClient(l, WithMessageSize(8192))
	verifAssume(err == nil)
	E := verifParam("E", 3)
	ne := 1 + verifChoice(E)
	maxSize := uint32(0)
	for i := 0; i < ne; i++ {
		d := Dirent{QID: QID{Type: QIDType(verifNondetU8()), Version: verifNondetU32(), Path: verifNondetU64()},
			Offset: uint64(i + 1), Type: QIDType(verifNondetU8()), Name: verifNondetString(1 + verifChoice(2))}
		f.entries = append(f.entries, d)
		if sz := uint32(24 + len(d.Name)); sz > maxSize {
			maxSize = sz
		}
	}
	rf, err := c.Attach("")
	verifAssume(err == nil)
	_, _, err = rf.Open(ReadOnly)
	verifAssume(err == nil)
	count := verifNondetU32()
	// "as long as one entry fits": every entry fits the requested count
	verifAssume(count >= maxSize && count <= 4096)
	var seen Dirents
	off := uint64(0)
	pages := 0
	for {
		ds, err := rf.Readdir(off, count)
		verifAssert(err == nil, "Readdir through the server reports no error")
		if err != nil || len(ds) == 0 {
			break
		}
		pages++
		verifAssert(pages <= ne, "every page makes progress")
		if pages > ne {
			break
		}
		sz := uint32(0)
		for _, d := range ds {
			sz += uint32(24 + len(d.Name))
		}
		verifAssert(sz <= count, "a page holds whole entries within the requested count")
		seen = append(seen, ds...)
		off = ds[len(ds)-1].Offset
	}
	verifReach("listing-done")
	verifAssert(len(seen) == ne, "every entry listed exactly once, whatever byte count is requested")
	for i := 0; i < len(seen) && i < ne; i++ {
		a, b := seen[i], f.entries[i]
		verifAssert(a.QID == b.QID && a.Offset == b.Offset && a.Type == b.Type && a.Name == b.Name, "listed entry equals the backend's entry (QID, type, offset, name)")
	}
	if pages >= 2 {
		verifReach("several-pages")
	}
}
