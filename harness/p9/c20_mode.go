package p9

import "os"

// C20: FileMode <-> os.FileMode round trips and QID type mapping.

// VerifH_C20_ModeP9OSP9: for every mode with a valid type and any 12
// permission bits, ModeFromOS(m.OSMode()) == m.
func VerifH_C20_ModeP9OSP9() {
	types := []FileMode{ModeRegular, ModeDirectory, ModeSymlink, ModeSocket, ModeNamedPipe, ModeCharacterDevice, ModeBlockDevice}
	ft := types[verifChoice(len(types))]
	perm := FileMode(verifNondetU32())
	verifAssume(perm&^07777 == 0)
	m := ft | perm
	verifReach("mode-built")
	back := ModeFromOS(m.OSMode())
	verifAssert(back.FileType() == ft, "p9->os->p9 keeps type")
	verifAssert(back&0777 == m&0777, "p9->os->p9 keeps rwx")
	verifAssert(back&Setuid == m&Setuid, "p9->os->p9 keeps setuid")
	verifAssert(back&Setgid == m&Setgid, "p9->os->p9 keeps setgid")
	verifAssert(back&Sticky == m&Sticky, "p9->os->p9 keeps sticky")
	verifAssert(back == m, "p9->os->p9 identity")
	// QID type
	q := m.QIDType()
	verifAssert((q&TypeDir != 0) == (ft == ModeDirectory), "QIDType dir iff directory")
	verifAssert((q&TypeSymlink != 0) == (ft == ModeSymlink), "QIDType symlink iff symlink")
}

// VerifH_C20_ModeOSP9OS: for every os.FileMode with a valid (single) type and
// any permission/setuid/setgid/sticky bits, ModeFromOS(o).OSMode() == o.
func VerifH_C20_ModeOSP9OS() {
	types := []os.FileMode{0, os.ModeDir, os.ModeSymlink, os.ModeSocket, os.ModeNamedPipe, os.ModeDevice | os.ModeCharDevice, os.ModeDevice}
	ot := types[verifChoice(len(types))]
	bits := os.FileMode(verifNondetU32())
	verifAssume(bits&^(os.ModePerm|os.ModeSetuid|os.ModeSetgid|os.ModeSticky) == 0)
	o := ot | bits
	verifReach("osmode-built")
	back := ModeFromOS(o).OSMode()
	verifAssert(back&os.ModeType == o&os.ModeType, "os->p9->os keeps type")
	verifAssert(back.Perm() == o.Perm(), "os->p9->os keeps rwx")
	verifAssert(back&os.ModeSetuid == o&os.ModeSetuid, "os->p9->os keeps setuid")
	verifAssert(back&os.ModeSetgid == o&os.ModeSetgid, "os->p9->os keeps setgid")
	verifAssert(back&os.ModeSticky == o&os.ModeSticky, "os->p9->os keeps sticky")
	verifAssert(back == o, "os->p9->os identity")
}
