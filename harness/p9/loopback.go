package p9

import "io"

// verifLoop connects a real Client to a real connState synchronously: the
// bytes the client writes are handed to connState.handleRequest when the
// client next reads, and the reply bytes are served back. Everything in
// between (send, recv, registry, handlers, fid table, path tree) is real code.
type verifLoop struct {
	cs      *connState
	c2s     []byte
	s2c     []byte
	pos     int
	closed  bool
	frames  []uint8 // type byte of every request frame seen
	replies []uint8 // type byte of every reply frame
	serving bool
	// onRequest, if set, sees every complete request frame before the server does
	onRequest func(frame []byte)
	// onWrite, if set, sees the bytes written so far of the current request at every Write
	onWrite func(sofar []byte)
}

func (l *verifLoop) Write(p []byte) (int, error) {
	l.c2s = append(l.c2s, p...)
	if l.onWrite != nil {
		l.onWrite(l.c2s)
	}
	return len(p), nil
}

func (l *verifLoop) Read(p []byte) (int, error) {
	if l.pos >= len(l.s2c) {
		if len(l.c2s) < 7 {
			return 0, io.EOF
		}
		l.frames = append(l.frames, l.c2s[4])
		if l.onRequest != nil {
			l.onRequest(l.c2s)
		}
		w := &verifRecWriter{keep: true}
		l.cs.t = &verifSegReader{data: l.c2s}
		l.cs.r = w
		l.c2s = nil
		// pretend an idle receiver exists so that handleRequest does not spawn
		// another receiver goroutine (which, natively, would race with this
		// synchronous loop for the stub transport); spawning is C06's subject
		l.cs.recvIdle = 1
		l.cs.handleRequest()
		l.s2c = w.data
		l.pos = 0
		if len(l.s2c) >= 7 {
			l.replies = append(l.replies, l.s2c[4])
		}
		if len(l.s2c) == 0 {
			return 0, io.EOF
		}
	}
	n := copy(p, l.s2c[l.pos:])
	l.pos += n
	return n, nil
}

func (l *verifLoop) Close() error { l.closed = true; return nil }

// verifLoopClient builds server, connection and client and negotiates; both
// ends are then set to version v as if an older peer had been negotiated with.
func verifLoopClient(fs *verifFS, v uint32) (*Client, *verifLoop) {
	s := NewServer(fs)
	cs := verifNewConn(s)
	l := &verifLoop{cs: cs}
	c, err := NewClient(l, WithMessageSize(8192))
	verifAssume(err == nil)
	c.version = v
	cs.version = v
	return c, l
}
