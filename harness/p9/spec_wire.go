package p9

import "io"

// Independent statement of the 9P2000.L (+ .Google.N) wire layout, written
// from the protocol description (DESIGN.md Appendix A), not from messages.go.
// It uses its own shift/mask code; it never calls buffer or encoding/binary.

type specEnc struct{ b []byte }

func (e *specEnc) u8(v uint8)   { e.b = append(e.b, v) }
func (e *specEnc) u16(v uint16) { e.b = append(e.b, byte(v), byte(v>>8)) }
func (e *specEnc) u32(v uint32) {
	e.b = append(e.b, byte(v), byte(v>>8), byte(v>>16), byte(v>>24))
}
func (e *specEnc) u64(v uint64) {
	e.u32(uint32(v))
	e.u32(uint32(v >> 32))
}
func (e *specEnc) str(s string) {
	e.u16(uint16(len(s)))
	for i := 0; i < len(s); i++ {
		e.b = append(e.b, s[i])
	}
}
func (e *specEnc) bytes(p []byte) { e.b = append(e.b, p...) }
func (e *specEnc) qid(q QID) {
	e.u8(uint8(q.Type))
	e.u32(q.Version)
	e.u64(q.Path)
}
func (e *specEnc) perm(m FileMode) { e.u32(uint32(m) & 07777) }
func (e *specEnc) names(n []string) {
	e.u16(uint16(len(n)))
	for _, s := range n {
		e.str(s)
	}
}
func (e *specEnc) qids(q []QID) {
	e.u16(uint16(len(q)))
	for _, x := range q {
		e.qid(x)
	}
}

func specBit(b bool, v uint64) uint64 {
	if b {
		return v
	}
	return 0
}

// P9_GETATTR_* bits.
func (e *specEnc) attrMask(a AttrMask) {
	var m uint64
	m |= specBit(a.Mode, 0x1)
	m |= specBit(a.NLink, 0x2)
	m |= specBit(a.UID, 0x4)
	m |= specBit(a.GID, 0x8)
	m |= specBit(a.RDev, 0x10)
	m |= specBit(a.ATime, 0x20)
	m |= specBit(a.MTime, 0x40)
	m |= specBit(a.CTime, 0x80)
	m |= specBit(a.INo, 0x100)
	m |= specBit(a.Size, 0x200)
	m |= specBit(a.Blocks, 0x400)
	m |= specBit(a.BTime, 0x800)
	m |= specBit(a.Gen, 0x1000)
	m |= specBit(a.DataVersion, 0x2000)
	e.u64(m)
}

// P9_SETATTR_* bits.
func (e *specEnc) setAttrMask(a SetAttrMask) {
	var m uint64
	m |= specBit(a.Permissions, 0x1)
	m |= specBit(a.UID, 0x2)
	m |= specBit(a.GID, 0x4)
	m |= specBit(a.Size, 0x8)
	m |= specBit(a.ATime, 0x10)
	m |= specBit(a.MTime, 0x20)
	m |= specBit(a.CTime, 0x40)
	m |= specBit(a.ATimeNotSystemTime, 0x80)
	m |= specBit(a.MTimeNotSystemTime, 0x100)
	e.u32(uint32(m))
}

func (e *specEnc) attr(a Attr) {
	e.u32(uint32(a.Mode))
	e.u32(uint32(a.UID))
	e.u32(uint32(a.GID))
	e.u64(uint64(a.NLink))
	e.u64(uint64(a.RDev))
	e.u64(a.Size)
	e.u64(a.BlockSize)
	e.u64(a.Blocks)
	e.u64(a.ATimeSeconds)
	e.u64(a.ATimeNanoSeconds)
	e.u64(a.MTimeSeconds)
	e.u64(a.MTimeNanoSeconds)
	e.u64(a.CTimeSeconds)
	e.u64(a.CTimeNanoSeconds)
	e.u64(a.BTimeSeconds)
	e.u64(a.BTimeNanoSeconds)
	e.u64(a.Gen)
	e.u64(a.DataVersion)
}

func specDirentSize(d Dirent) int { return 13 + 8 + 1 + 2 + len(d.Name) }

func (e *specEnc) dirent(d Dirent) {
	e.qid(d.QID)
	e.u64(d.Offset)
	e.u8(uint8(d.Type))
	e.str(d.Name)
}

// The 65 registered type numbers of 9P2000.L + .Google.N.
var specTypes = []uint8{
	7, 8, 9, 12, 13, 14, 15, 16, 17, 18, 19, 20, 21, 22, 23, 24, 25, 26, 27,
	30, 31, 32, 33, 40, 41, 50, 51, 52, 53, 70, 71, 72, 73, 74, 75, 76, 77,
	100, 101, 102, 103, 104, 105, 108, 109, 110, 111, 116, 117, 118, 119,
	120, 121, 122, 123, 126, 127, 128, 129, 130, 131, 132, 133, 134, 135,
}

func specIsRegistered(t uint8) bool {
	for _, x := range specTypes {
		if x == t {
			return true
		}
	}
	return false
}

func (e *specEnc) tlcreateBody(t *tlcreate) {
	e.u32(uint32(t.fid))
	e.str(t.Name)
	e.u32(uint32(t.OpenFlags))
	e.perm(t.Permissions)
	e.u32(uint32(t.GID))
}
func (e *specEnc) tmkdirBody(t *tmkdir) {
	e.u32(uint32(t.Directory))
	e.str(t.Name)
	e.perm(t.Permissions)
	e.u32(uint32(t.GID))
}
func (e *specEnc) tmknodBody(t *tmknod) {
	e.u32(uint32(t.Directory))
	e.str(t.Name)
	e.u32(uint32(t.Mode))
	e.u32(t.Major)
	e.u32(t.Minor)
	e.u32(uint32(t.GID))
}
func (e *specEnc) tsymlinkBody(t *tsymlink) {
	e.u32(uint32(t.Directory))
	e.str(t.Name)
	e.str(t.Target)
	e.u32(uint32(t.GID))
}
func (e *specEnc) tauthBody(t *tauth) {
	e.u32(uint32(t.Authenticationfid))
	e.str(t.UserName)
	e.str(t.AttachName)
	e.u32(uint32(t.UID))
}

// specBody appends the wire body of m and returns (type number, ok).
// For Rreaddir it applies the documented truncation: only the whole entries
// whose encoding fits in Count travel, and count[4] is their total size.
func specBody(e *specEnc, m message) (uint8, bool) {
	switch t := m.(type) {
	case *rlerror:
		e.u32(t.Error)
		return 7, true
	case *tstatfs:
		e.u32(uint32(t.fid))
		return 8, true
	case *rstatfs:
		f := t.FSStat
		e.u32(f.Type)
		e.u32(f.BlockSize)
		e.u64(f.Blocks)
		e.u64(f.BlocksFree)
		e.u64(f.BlocksAvailable)
		e.u64(f.Files)
		e.u64(f.FilesFree)
		e.u64(f.FSID)
		e.u32(f.NameLength)
		return 9, true
	case *tlopen:
		e.u32(uint32(t.fid))
		e.u32(uint32(t.Flags))
		return 12, true
	case *rlopen:
		e.qid(t.QID)
		e.u32(t.IoUnit)
		return 13, true
	case *tlcreate:
		e.tlcreateBody(t)
		return 14, true
	case *rlcreate:
		e.qid(t.QID)
		e.u32(t.IoUnit)
		return 15, true
	case *tsymlink:
		e.tsymlinkBody(t)
		return 16, true
	case *rsymlink:
		e.qid(t.QID)
		return 17, true
	case *tmknod:
		e.tmknodBody(t)
		return 18, true
	case *rmknod:
		e.qid(t.QID)
		return 19, true
	case *trename:
		e.u32(uint32(t.fid))
		e.u32(uint32(t.Directory))
		e.str(t.Name)
		return 20, true
	case *rrename:
		return 21, true
	case *treadlink:
		e.u32(uint32(t.fid))
		return 22, true
	case *rreadlink:
		e.str(t.Target)
		return 23, true
	case *tgetattr:
		e.u32(uint32(t.fid))
		e.attrMask(t.AttrMask)
		return 24, true
	case *rgetattr:
		e.attrMask(t.Valid)
		e.qid(t.QID)
		e.attr(t.Attr)
		return 25, true
	case *tsetattr:
		e.u32(uint32(t.fid))
		e.setAttrMask(t.Valid)
		s := t.SetAttr
		e.perm(s.Permissions)
		e.u32(uint32(s.UID))
		e.u32(uint32(s.GID))
		e.u64(s.Size)
		e.u64(s.ATimeSeconds)
		e.u64(s.ATimeNanoSeconds)
		e.u64(s.MTimeSeconds)
		e.u64(s.MTimeNanoSeconds)
		return 26, true
	case *rsetattr:
		return 27, true
	case *txattrwalk:
		e.u32(uint32(t.fid))
		e.u32(uint32(t.newFID))
		e.str(t.Name)
		return 30, true
	case *rxattrwalk:
		e.u64(t.Size)
		return 31, true
	case *txattrcreate:
		e.u32(uint32(t.fid))
		e.str(t.Name)
		e.u64(t.AttrSize)
		e.u32(t.Flags)
		return 32, true
	case *rxattrcreate:
		return 33, true
	case *treaddir:
		e.u32(uint32(t.Directory))
		e.u64(t.Offset)
		e.u32(t.Count)
		return 40, true
	case *rreaddir:
		// whole entries within Count
		total := 0
		n := 0
		for _, d := range t.Entries {
			sz := specDirentSize(d)
			if uint64(total+sz) > uint64(t.Count) {
				break
			}
			total += sz
			n++
		}
		e.u32(uint32(total))
		for i := 0; i < n; i++ {
			e.dirent(t.Entries[i])
		}
		return 41, true
	case *tfsync:
		e.u32(uint32(t.fid))
		return 50, true
	case *rfsync:
		return 51, true
	case *tlock:
		e.u32(uint32(t.fid))
		e.u8(uint8(t.Type))
		e.u32(uint32(t.Flags))
		e.u64(t.Start)
		e.u64(t.Length)
		e.u32(uint32(t.PID))
		e.str(t.Client)
		return 52, true
	case *rlock:
		e.u8(uint8(t.Status))
		return 53, true
	case *tlink:
		e.u32(uint32(t.Directory))
		e.u32(uint32(t.Target))
		e.str(t.Name)
		return 70, true
	case *rlink:
		return 71, true
	case *tmkdir:
		e.tmkdirBody(t)
		return 72, true
	case *rmkdir:
		e.qid(t.QID)
		return 73, true
	case *trenameat:
		e.u32(uint32(t.OldDirectory))
		e.str(t.OldName)
		e.u32(uint32(t.NewDirectory))
		e.str(t.NewName)
		return 74, true
	case *rrenameat:
		return 75, true
	case *tunlinkat:
		e.u32(uint32(t.Directory))
		e.str(t.Name)
		e.u32(t.Flags)
		return 76, true
	case *runlinkat:
		return 77, true
	case *tversion:
		e.u32(t.MSize)
		e.str(t.Version)
		return 100, true
	case *rversion:
		e.u32(t.MSize)
		e.str(t.Version)
		return 101, true
	case *tauth:
		e.tauthBody(t)
		return 102, true
	case *rauth:
		e.qid(t.QID)
		return 103, true
	case *tattach:
		e.u32(uint32(t.fid))
		e.tauthBody(&t.Auth)
		return 104, true
	case *rattach:
		e.qid(t.QID)
		return 105, true
	case *tflush:
		e.u16(uint16(t.OldTag))
		return 108, true
	case *rflush:
		return 109, true
	case *twalk:
		e.u32(uint32(t.fid))
		e.u32(uint32(t.newFID))
		e.names(t.Names)
		return 110, true
	case *rwalk:
		e.qids(t.QIDs)
		return 111, true
	case *tread:
		e.u32(uint32(t.fid))
		e.u64(t.Offset)
		e.u32(t.Count)
		return 116, true
	case *rread:
		e.u32(uint32(len(t.Data)))
		e.bytes(t.Data)
		return 117, true
	case *twrite:
		e.u32(uint32(t.fid))
		e.u64(t.Offset)
		e.u32(uint32(len(t.Data)))
		e.bytes(t.Data)
		return 118, true
	case *rwrite:
		e.u32(t.Count)
		return 119, true
	case *tclunk:
		e.u32(uint32(t.fid))
		return 120, true
	case *rclunk:
		return 121, true
	case *tremove:
		e.u32(uint32(t.fid))
		return 122, true
	case *rremove:
		return 123, true
	case *twalkgetattr:
		e.u32(uint32(t.fid))
		e.u32(uint32(t.newFID))
		e.names(t.Names)
		return 126, true
	case *rwalkgetattr:
		e.attrMask(t.Valid)
		e.attr(t.Attr)
		e.qids(t.QIDs)
		return 127, true
	case *tucreate:
		e.tlcreateBody(&t.tlcreate)
		e.u32(uint32(t.UID))
		return 128, true
	case *rucreate:
		e.qid(t.QID)
		e.u32(t.IoUnit)
		return 129, true
	case *tumkdir:
		e.tmkdirBody(&t.tmkdir)
		e.u32(uint32(t.UID))
		return 130, true
	case *rumkdir:
		e.qid(t.QID)
		return 131, true
	case *tumknod:
		e.tmknodBody(&t.tmknod)
		e.u32(uint32(t.UID))
		return 132, true
	case *rumknod:
		e.qid(t.QID)
		return 133, true
	case *tusymlink:
		e.tsymlinkBody(&t.tsymlink)
		e.u32(uint32(t.UID))
		return 134, true
	case *rusymlink:
		e.qid(t.QID)
		return 135, true
	}
	return 0, false
}

// specFrame = size[4] type[1] tag[2] body.
func specFrame(tg uint16, m message) ([]byte, uint8, bool) {
	body := &specEnc{}
	t, ok := specBody(body, m)
	if !ok {
		return nil, 0, false
	}
	f := &specEnc{}
	f.u32(uint32(7 + len(body.b)))
	f.u8(t)
	f.u16(tg)
	f.bytes(body.b)
	return f.b, t, true
}

// specCanon applies the documented value changes to m in place, so that a
// decoded message can be compared with the one that was sent:
// permission fields keep their low 12 bits.
func specCanon(m message) {
	switch t := m.(type) {
	case *tlcreate:
		t.Permissions &= 07777
	case *tucreate:
		t.Permissions &= 07777
	case *tmkdir:
		t.Permissions &= 07777
	case *tumkdir:
		t.Permissions &= 07777
	case *tsetattr:
		t.SetAttr.Permissions &= 07777
	}
}

// verifBytesDiff returns 0 iff a and b are equal (branch-free on content).
func verifBytesDiff(a, b []byte) uint8 {
	if len(a) != len(b) {
		return 1
	}
	var d uint8
	for i := range a {
		d |= a[i] ^ b[i]
	}
	return d
}

// verifSegReader serves data in one go (segmentation is C17's subject).
type verifSegReader struct {
	data  []byte
	pos   int
	reads int
}

func (r *verifSegReader) Read(p []byte) (int, error) {
	r.reads++
	if r.pos >= len(r.data) {
		return 0, io.EOF
	}
	n := copy(p, r.data[r.pos:])
	r.pos += n
	return n, nil
}
func (r *verifSegReader) Close() error { return nil }
