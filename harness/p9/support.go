package p9

import (
	"github.com/u-root/uio/ulog"
)

// ---- shared harness support (package p9, injected by overlay) ----

// verifRecWriter records what send writes.
type verifRecWriter struct {
	total  uint64 // bytes written so far
	writes int    // number of Write calls
	hdr    []byte // first 7 bytes, if the first write was the header
	data   []byte // all bytes (only kept while lengths are concrete and keep is set)
	keep   bool
	failAt int // fail the n-th write (1-based) if > 0
}

func (w *verifRecWriter) Write(p []byte) (int, error) {
	w.writes++
	if w.failAt > 0 && w.writes == w.failAt {
		return 0, verifErrWrite
	}
	if w.writes == 1 && len(p) == 7 {
		w.hdr = append([]byte(nil), p...)
	}
	if w.keep {
		w.data = append(w.data, p...)
	}
	w.total += uint64(len(p))
	return len(p), nil
}

func (w *verifRecWriter) Close() error { return nil }

type verifErr string

func (e verifErr) Error() string { return string(e) }

const verifErrWrite = verifErr("verif: write fault")

// verifHdrSize decodes the size[4] field of a recorded header.
func verifHdrSize(h []byte) uint32 {
	return uint32(h[0]) | uint32(h[1])<<8 | uint32(h[2])<<16 | uint32(h[3])<<24
}

// verifAttacher hands out a fixed File.
type verifAttacher struct{ f File }

func (a *verifAttacher) Attach() (File, error) { return a.f, nil }

// verifNewConn builds a connState like Server.Handle does, without transport.
// verifNewConn (the connState of a fresh connection) is generated on every run
// from the source of (*Server).Handle: engine/sym/gen.go.

var verifLog = ulog.Null
