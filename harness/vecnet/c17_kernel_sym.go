package vecnet

import (
	"io"
	"syscall"
)

//verif:intercept syscall.recvmsg=verifKernelRecvmsg

// Engine side of the stream: a model of recvmsg(2) on a stream socket.

type verifStream struct {
	data  []byte
	segs  []int
	next  int // next segment to arrive
	avail int // bytes of the arrived segment not yet consumed
	pos   int
	eof   bool
	calls int
}

var verifCurStream *verifStream

func verifOpenStream(data []byte, segs []int, eof bool) *verifStream {
	s := &verifStream{data: data, segs: segs, eof: eof}
	verifCurStream = s
	return s
}

func (s *verifStream) conn() io.Reader { return verifConn{} }
func (s *verifStream) consumed() int   { return s.pos }
func (s *verifStream) close()          {}

type verifRawConn struct{}

func (verifRawConn) Control(f func(fd uintptr)) error { f(3); return nil }
func (verifRawConn) Read(f func(fd uintptr) bool) error {
	for !f(3) {
	}
	return nil
}
func (verifRawConn) Write(f func(fd uintptr) bool) error { return nil }

type verifConn struct{}

func (verifConn) SyscallConn() (syscall.RawConn, error) { return verifRawConn{}, nil }
func (verifConn) Read(p []byte) (int, error) {
	panic("generic path must not be used for a syscall.Conn")
}

// verifKernelRecvmsg: what the kernel does for recvmsg(fd, {iov = bufs}, MSG_DONTWAIT).
func verifKernelRecvmsg(fd uintptr, bufs [][]byte) (int, syscall.Errno) {
	s := verifCurStream
	s.calls++
	total := 0
	for _, b := range bufs {
		total += len(b)
	}
	if s.avail == 0 {
		if s.next < len(s.segs) {
			s.avail = s.segs[s.next]
			s.next++
		} else if s.eof {
			return 0, 0
		} else {
			// nothing will ever arrive: the caller asked for more than the stream holds
			verifAssert(false, "recvmsg called although the request is complete and no more data is due")
			return 0, 0
		}
	}
	cur := s.avail
	if cur > total {
		cur = total
	}
	k := 0
	for _, b := range bufs {
		for i := 0; i < len(b) && k < cur; i++ {
			b[i] = s.data[s.pos+k]
			k++
		}
	}
	s.pos += cur
	s.avail -= cur
	return cur, 0
}
