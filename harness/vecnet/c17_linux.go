package vecnet

import (
	"io"
	"syscall"
)

//verif:intercept github.com/hugelgupf/p9/vecnet.recvmsg=verifModelRecvmsg

// C17: the vectorised socket path. recvmsg(2) is replaced by its contract:
// it scatters the next cur bytes of the stream into the iovecs in order,
// 1 <= cur <= min(available, total iovec length); 0 bytes = peer closed.

type verifStream struct {
	data  []byte
	pos   int
	calls int
	short int // budget of partial receives
	fail  bool
}

var verifCurStream *verifStream

type verifRawConn struct{}

func (verifRawConn) Control(f func(fd uintptr)) error    { return nil }
func (verifRawConn) Read(f func(fd uintptr) bool) error  { return nil }
func (verifRawConn) Write(f func(fd uintptr) bool) error { return nil }

type verifConn struct{}

func (verifConn) SyscallConn() (syscall.RawConn, error) { return verifRawConn{}, nil }
func (verifConn) Read(p []byte) (int, error)            { panic("generic path must not be used for a syscall.Conn") }

func verifModelRecvmsg(bufs Buffers, rc syscall.RawConn) (int, error) {
	s := verifCurStream
	s.calls++
	total := 0
	for _, b := range bufs {
		total += len(b)
	}
	left := len(s.data) - s.pos
	if left == 0 {
		return 0, io.EOF
	}
	want := total
	if want > left {
		want = left
	}
	cur := want
	if s.short > 0 && want > 1 {
		switch verifChoice(4) {
		case 1:
			cur = 1
		case 2:
			cur = want - 1
		case 3:
			cur = (want + 1) / 2
		}
		if cur != want {
			s.short--
		}
	}
	// scatter
	k := 0
	for _, b := range bufs {
		for i := 0; i < len(b) && k < cur; i++ {
			b[i] = s.data[s.pos+k]
			k++
		}
	}
	s.pos += cur
	return cur, nil
}

// VerifH_C17_Linux: buffers of lengths (a, b, c) filled through partial
// receives; all bytes land at their stream positions.
func VerifH_C17_Linux() {
	la := 1 + verifChoice(verifParam("A", 4))
	lb := verifChoice(verifParam("B", 4) + 1)
	lc := verifChoice(verifParam("C", 2) + 1)
	n := la + lb + lc
	extra := verifChoice(2) // stream may hold more than requested (next frame)
	data := verifNondetBytes(n + extra)
	verifCurStream = &verifStream{data: data, short: verifParam("S", 3)}
	ba, bb, bc := make([]byte, la), make([]byte, lb), make([]byte, lc)
	bufs := Buffers{ba, bb}
	if lc > 0 {
		bufs = append(bufs, bc)
	}
	got, err := bufs.ReadFrom(verifConn{})
	verifReach("linux-read")
	verifAssert(err == nil && got == int64(n), "all requested bytes received")
	verifAssert(verifCurStream.pos == n, "not a byte beyond the request consumed")
	var d byte
	for i := 0; i < la; i++ {
		d |= ba[i] ^ data[i]
	}
	for i := 0; i < lb; i++ {
		d |= bb[i] ^ data[la+i]
	}
	for i := 0; i < lc; i++ {
		d |= bc[i] ^ data[la+lb+i]
	}
	verifAssert(d == 0, "every byte lands at its stream position")
	if verifCurStream.calls > 2 {
		verifReach("partial-receives")
	}
}

// VerifH_C17_LinuxEOF: the peer closes before the buffers are full.
func VerifH_C17_LinuxEOF() {
	la := 1 + verifChoice(3)
	lb := verifChoice(4)
	n := la + lb
	have := verifChoice(n) // 0..n-1 bytes available
	data := verifNondetBytes(have)
	verifCurStream = &verifStream{data: data, short: 1}
	bufs := Buffers{make([]byte, la), make([]byte, lb)}
	_, err := bufs.ReadFrom(verifConn{})
	verifReach("linux-eof")
	verifAssert(err != nil, "a stream that ends mid-frame is an error")
}
