package vecnet

// C17: the vectorised socket path. The boundary between the code under test
// and its environment is the recvmsg(2) system call itself: symbolically
// syscall.Syscall(SYS_RECVMSG, ...) is answered by a model of the kernel
// (c17_kernel_sym.go); in the native replay the same stream arrives, in the
// same segments, on a real AF_UNIX socket pair (c17_socket_native.go).
// Everything above the system call - readFromBuffersLinux, recvmsg,
// buildIovec, however they are cut into functions - is the real code.
//
// Contract of the stream: it arrives in segments; a recvmsg returns
// min(bytes of the arrived segment not yet consumed, total iovec length) bytes,
// scattered over the iovecs in order; the next segment arrives once the
// previous one has been consumed; after the last segment the peer may close
// (recvmsg then returns 0).

// verifSegments picks the segmentation of a stream of n bytes: at most s cuts.
func verifSegments(n, s int) []int {
	var segs []int
	left := n
	for i := 0; i < s && left > 1; i++ {
		seg := left
		switch verifChoice(5) {
		case 1:
			seg = 1
		case 2:
			seg = 2
		case 3:
			seg = left - 1
		case 4:
			seg = (left + 1) / 2
		}
		if seg >= left {
			break
		}
		segs = append(segs, seg)
		left -= seg
	}
	if left > 0 {
		segs = append(segs, left)
	}
	return segs
}

// VerifH_C17_Linux: buffers of lengths (a, b, c) filled from a segmented
// stream; all bytes land at their stream positions.
func VerifH_C17_Linux() {
	la := 1 + verifChoice(verifParam("A", 4))
	lb := verifChoice(verifParam("B", 4) + 1)
	lc := verifChoice(verifParam("C", 2) + 1)
	n := la + lb + lc
	extra := verifChoice(2) // the stream may hold more than requested (next frame)
	data := verifNondetBytes(n + extra)
	segs := verifSegments(n+extra, verifParam("S", 3))
	st := verifOpenStream(data, segs, false)
	ba, bb, bc := make([]byte, la), make([]byte, lb), make([]byte, lc)
	bufs := Buffers{ba, bb}
	if lc > 0 {
		bufs = append(bufs, bc)
	}
	got, err := bufs.ReadFrom(st.conn())
	verifReach("linux-read")
	verifAssert(err == nil && got == int64(n), "all requested bytes received")
	verifAssert(st.consumed() == n, "not a byte beyond the request consumed")
	var d byte
	for i := 0; i < la; i++ {
		d |= ba[i] ^ data[i]
	}
	for i := 0; i < lb; i++ {
		d |= bb[i] ^ data[la+i]
	}
	for i := 0; i < lc; i++ {
		d |= bc[i] ^ data[la+lb+i]
	}
	verifAssert(d == 0, "every byte lands at its stream position")
	if len(segs) > 1 {
		verifReach("partial-receives")
	}
	st.close()
}

// VerifH_C17_LinuxEOF: the peer closes before the buffers are full.
func VerifH_C17_LinuxEOF() {
	la := 1 + verifChoice(3)
	lb := verifChoice(4)
	n := la + lb
	have := verifChoice(n) // 0..n-1 bytes arrive, then the peer closes
	data := verifNondetBytes(have)
	segs := verifSegments(have, 1)
	st := verifOpenStream(data, segs, true)
	bufs := Buffers{make([]byte, la), make([]byte, lb)}
	_, err := bufs.ReadFrom(st.conn())
	verifReach("linux-eof")
	verifAssert(err != nil, "a stream that ends mid-frame is an error")
	st.close()
}
