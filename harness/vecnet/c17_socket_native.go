package vecnet

import (
	"io"
	"net"
	"os"
	"sync/atomic"
	"syscall"
	"time"
	"unsafe"
)

// Native side of the stream: a real AF_UNIX stream socket pair. A feeder
// writes the segments one by one, each only after the reader's receive queue
// has been drained (FIONREAD == 0), so every recvmsg sees exactly what the
// model says it sees.

type verifStream struct {
	rd       net.Conn
	rfd, wfd int
	written  int64
	stop     int32
	done     chan struct{}
}

func verifInq(fd int) int {
	var n int32
	syscall.Syscall(syscall.SYS_IOCTL, uintptr(fd), 0x541B /* FIONREAD */, uintptr(unsafe.Pointer(&n)))
	return int(n)
}

func verifOpenStream(data []byte, segs []int, eof bool) *verifStream {
	fds, err := syscall.Socketpair(syscall.AF_UNIX, syscall.SOCK_STREAM, 0)
	if err != nil {
		panic(err)
	}
	f := os.NewFile(uintptr(fds[0]), "verif-reader")
	c, err := net.FileConn(f) // dups the descriptor; fds[0] stays ours for FIONREAD
	if err != nil {
		panic(err)
	}
	s := &verifStream{rd: c, rfd: fds[0], wfd: fds[1], done: make(chan struct{})}
	go func() {
		defer close(s.done)
		pos := 0
		for _, seg := range segs {
			if pos+seg > len(data) {
				seg = len(data) - pos
			}
			if seg > 0 {
				syscall.Write(s.wfd, data[pos:pos+seg])
				pos += seg
				atomic.StoreInt64(&s.written, int64(pos))
			}
			for verifInq(s.rfd) > 0 {
				if atomic.LoadInt32(&s.stop) != 0 {
					return
				}
				time.Sleep(200 * time.Microsecond)
			}
		}
		if eof {
			syscall.Shutdown(s.wfd, syscall.SHUT_WR)
		}
	}()
	_ = f
	return s
}

func (s *verifStream) conn() io.Reader { return s.rd }

// consumed: bytes the reader has taken out of the socket.
func (s *verifStream) consumed() int {
	return int(atomic.LoadInt64(&s.written)) - verifInq(s.rfd)
}

func (s *verifStream) close() {
	atomic.StoreInt32(&s.stop, 1)
	<-s.done
	s.rd.Close()
	syscall.Close(s.wfd)
	syscall.Close(s.rfd)
}
