package vecnet

import "syscall"

// Native replay: the engine's interception of recvmsg is reproduced by
// renaming the original (done by the replay overlay) and routing here.
func recvmsg(bufs Buffers, rc syscall.RawConn) (int, error) { return verifModelRecvmsg(bufs, rc) }
