#!/usr/bin/env python3
"""Regenerates /verif/MANIFEST.json from harness/index.json (claimed properties)
and tools/not_applicable.json (reasons for unclaimed ones)."""
import json, os
V = os.path.dirname(os.path.dirname(os.path.abspath(__file__)))
props = [json.loads(l)['id'] for l in open(os.path.join(V, 'properties.jsonl'))]
index = json.load(open(os.path.join(V, 'harness', 'index.json')))
na = json.load(open(os.path.join(V, 'tools', 'not_applicable.json')))
checks = []
for pid in props:
    if pid not in index:
        continue
    sp = index[pid]
    cat = sp['level']
    tech = 'bounded symbolic execution of the real go/ssa code, every assertion decided by z3 over all values within the bounds; counterexamples replayed natively'
    if cat == 'model_checking':
        tech = 'per-thread symbolic execution of the real go/ssa code into event traces + SMT (z3) partial-order encoding of all interleavings; witnesses replayed'
    checks.append({
        "property_id": pid,
        "quick_cmd": f"./check {pid} quick",
        "thorough_cmd": f"./check {pid} thorough",
        "evidence_file": f"/verif/evidence/{pid}.json",
        "replay_cmd_template": "./check replay {path}",
        "engine": "p9sym",
        "level_claimed": {"category": cat, "text": sp.get('claim', sp['explanation']), "design_ref": "DESIGN.md section 5 (" + pid + ") and section 9 (as built)"},
        "level_note": "Bounds: " + sp['bounds'] + " Trusted: go/packages+go/ssa front end, the p9sym interpreter (validated by `p9sym selftest` against native execution), z3 4.8.12 (sampled queries re-asked to z3 5.1.0 and cvc5 1.0), the stub contracts listed in the evidence. Assumptions: " + "; ".join(sp.get('assumptions', [])),
        "technique": tech,
    })
m = {
    "version": 1,
    "setup_cmd": "cd /verif/engine && GOFLAGS=-mod=mod GOPROXY=off GOSUMDB=off GOTOOLCHAIN=local go build -o ../bin/p9sym ./cmd/p9sym && cd /verif && VERIF_DIR=/verif ./bin/p9sym selftest",
    "hooks": {
        "guard": "verif",
        "enable": "none needed: harnesses are injected as go/packages and go-build overlays (zz_verif_*.go in the package directory); nothing guarded is committed to /repo",
        "baseline_off_cmd": "cd /repo && GOFLAGS=-mod=mod GOPROXY=off GOSUMDB=off go test -vet=off -count=1 ./p9/... ./fsimpl/composefs/... ./fsimpl/localfs/... ./fsimpl/qids/... ./fsimpl/staticfs/... ./vecnet/...",
        "source_commits": [],
        "add_only": True,
    },
    "engines": [{"name": "p9sym", "path": "/verif/engine", "serves_properties": [c['property_id'] for c in checks],
                 "kind_free_text": "symbolic interpreter for go/ssa (concrete heap shapes, SMT scalars, forking by re-execution, pure-region merging) + z3; schedule layer encodes interleavings as SMT timestamps"}],
    "checks": checks,
    "notes": "exit 0 = held within bounds; exit 1 + VIOLATION line = solver counterexample reproduced natively; exit 2 + INCONCLUSIVE = could not decide (never printed on the unchanged tree for registered bounds). KNOWN_FINDINGS lists fixed defects and recorded findings.",
    "not_applicable": [{"property_id": p, "reason": na.get(p, "check not built yet in this session")} for p in props if p not in index],
}
json.dump(m, open(os.path.join(V, 'MANIFEST.json'), 'w'), indent=1)
print("claimed:", [c['property_id'] for c in checks])
