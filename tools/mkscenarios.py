#!/usr/bin/env python3
"""Writes the per-tier scenario lists of the schedule harnesses into
harness/index.json (C07 VerifH_C07_Pair, C16 VerifH_C16_Pairs). The selection
rules are the ones stated in DESIGN.md section 9.7; timings behind them were
measured on the unchanged tree (16 cores)."""
import json, os
V = os.path.dirname(os.path.dirname(os.path.abspath(__file__)))
p = os.path.join(V, 'harness', 'index.json')
d = json.load(open(p))

# ---- C07: 19 operations x 19 x 4 path relations ----
N = 19
GLOBAL = (15, 16, 17)  # RenameAt, Remove, Rename (global class, many read-from candidates)
c07_quick, c07_thorough = [], []
for rel in range(4):
    for b in range(N):
        for a in range(N):
            sc = a + N * b + N * N * rel
            if not (a in (15, 17) and b in (15, 17)):
                # RenameAt/Rename x RenameAt/Rename: phase A plus the first
                # combinations alone exceed 50 minutes; outside the claim
                c07_thorough.append(sc)
            if not (a in GLOBAL and b in GLOBAL):
                c07_quick.append(sc)
for h in d['C07']['harnesses']:
    if h['fn'] == 'VerifH_C07_Pair':
        h['quick'] = {}
        h['thorough'] = {}
        h['quick_scenarios'] = c07_quick
        h['thorough_scenarios'] = c07_thorough

# ---- C16: 16 operations x 16 x relations 0..3 ----
R = (5, 6, 7)            # renames
S = (8, 9, 10, 13, 14)   # remove / release of fids / teardown
def slow(a, b):
    return (a in R and (b in R or b in S)) or (b in R and (a in R or a in S))
def monster(a, b):
    return a in R and b in R
q, t = [], []
for rel in range(4):
    for b in range(16):
        for a in range(16):
            sc = a + 16 * b + 256 * rel
            if rel == 2:
                # tiny sessions: rename x {remove, clunk} costs minutes (thorough only)
                t.append(sc)
                if not (a in (5, 6) and b in (8, 9)):
                    q.append(sc)
                continue
            if rel == 3:
                q.append(sc); t.append(sc)
                continue
            if not slow(a, b):
                q.append(sc); t.append(sc)
            elif not monster(a, b):
                t.append(sc)
for h in d.get('C16', {}).get('harnesses', []):
    if h['fn'] == 'VerifH_C16_Pairs':
        h['quick_scenarios'] = q
        h['thorough_scenarios'] = t
# C05: lifecycle under concurrency = the tiny sessions that are declared (A in dirops, B in fidops)
q5, t5 = [], []
for b_ in (2, 7, 8, 9, 12, 14):
    for a_ in (0, 3, 4, 5, 6, 15):
        sc = a_ + 16 * b_ + 512
        t5.append(sc)
        if not (a_ in (5, 6) and b_ in (8, 9)):
            q5.append(sc)
for h in d.get('C05', {}).get('harnesses', []):
    if h['fn'] == 'VerifH_C16_Pairs':
        h['quick_scenarios'] = q5
        h['thorough_scenarios'] = t5
json.dump(d, open(p, 'w'), indent=1)
print('C07 quick %d thorough %d; C16 quick %d thorough %d' % (len(c07_quick), len(c07_thorough), len(q), len(t)))
