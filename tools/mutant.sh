#!/bin/sh
# usage: tools/mutant.sh <patch> <property> [tier]
# Applies a patch to a scratch copy of /repo, checks it still builds and passes
# the suite, runs the property's check against the copy, reports, cleans up.
set -u
PATCH="$(readlink -f "$1")"; PROP="$2"; TIER="${3:-quick}"
V="$(cd "$(dirname "$0")/.." && pwd)"
S="$(mktemp -d /tmp/p9mut.XXXXXX)"
trap 'rm -rf "$S"' EXIT
rsync -a --exclude .git /repo/ "$S/"
export GOFLAGS=-mod=mod GOPROXY=off GOSUMDB=off GOTOOLCHAIN=local
if ! (cd "$S" && patch -p1 -s < "$PATCH"); then echo "MUTANT $1: patch does not apply"; exit 3; fi
if ! (cd "$S" && go build ./... 2>&1 | tail -3); then echo "MUTANT $1: does not build"; exit 3; fi
if ! (cd "$S" && go test -vet=off -count=1 ./p9/... ./fsimpl/composefs/... ./fsimpl/localfs/... ./fsimpl/qids/... ./fsimpl/staticfs/... ./vecnet/... >/tmp/mut_suite.$$ 2>&1); then
  echo "MUTANT $1: existing suite FAILS (not a valid mutant)"; tail -5 /tmp/mut_suite.$$; rm -f /tmp/mut_suite.$$; exit 3
fi
rm -f /tmp/mut_suite.$$
OUT="$(cd "$V" && VERIF_REPO="$S" ./bin/p9sym run -property "$PROP" -tier "$TIER" -no-evidence 2>&1)"
RC=$?
echo "$OUT" | grep -E "VIOLATION|INCONCLUSIVE|^OK|violation " | head -5
case $RC in
 1) echo "MUTANT $(basename "$1") property=$PROP: CAUGHT";;
 0) echo "MUTANT $(basename "$1") property=$PROP: MISSED";;
 *) echo "MUTANT $(basename "$1") property=$PROP: INCONCLUSIVE (rc=$RC)";;
esac
exit $RC
