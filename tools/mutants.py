#!/usr/bin/env python3
"""Self-validation: applies each mutation of mutants/specs.json to a scratch copy
of /repo, checks that it still builds and passes the existing suite, runs the
property's check against the copy and reports CAUGHT / MISSED / INVALID.
usage: tools/mutants.py [name-substring ...]"""
import json, os, subprocess, sys, tempfile, shutil, time
V = os.path.dirname(os.path.dirname(os.path.abspath(__file__)))
specs = json.load(open(os.path.join(V, 'mutants', 'specs.json')))
env = dict(os.environ, GOFLAGS='-mod=mod', GOPROXY='off', GOSUMDB='off', GOTOOLCHAIN='local')
SUITE = ['go', 'test', '-vet=off', '-count=1', './p9/...', './fsimpl/composefs/...', './fsimpl/localfs/...', './fsimpl/qids/...', './fsimpl/staticfs/...', './vecnet/...']
sel = sys.argv[1:]
results = []
for sp in specs:
    if sel and not any(s in sp['name'] for s in sel):
        continue
    d = tempfile.mkdtemp(prefix='p9mut.', dir='/tmp')
    try:
        subprocess.run(['rsync', '-a', '--exclude', '.git', '/repo/', d + '/'], check=True)
        ok = True
        for ed in sp['edits']:
            p = os.path.join(d, ed['file'])
            s = open(p).read()
            if ed['old'] not in s:
                ok = False
                break
            s = s.replace(ed['old'], ed['new'], 1)
            open(p, 'w').write(s)
        if not ok:
            results.append((sp['name'], sp['property'], 'INVALID (edit does not apply)'))
            print('MUTANT %-40s %-4s %s' % results[-1], flush=True)
            continue
        if subprocess.run(['go', 'build', './...'], cwd=d, env=env, capture_output=True).returncode != 0:
            results.append((sp['name'], sp['property'], 'INVALID (does not build)'))
            print('MUTANT %-40s %-4s %s' % results[-1], flush=True)
            continue
        if subprocess.run(SUITE, cwd=d, env=env, capture_output=True).returncode != 0:
            results.append((sp['name'], sp['property'], 'INVALID (existing suite fails)'))
            print('MUTANT %-40s %-4s %s' % results[-1], flush=True)
            continue
        t0 = time.time()
        cmd = [os.path.join(V, 'bin', 'p9sym'), 'run', '-property', sp['property'], '-tier', sp.get('tier', 'quick'), '-no-evidence']
        if sp.get('only'):
            cmd += ['-only', sp['only']]
        if sp.get('scenarios'):
            cmd += ['-scenarios', ','.join(map(str, sp['scenarios']))]
        try:
            r = subprocess.run(cmd, cwd=V, env=dict(env, VERIF_REPO=d, VERIF_DIR=V), capture_output=True, text=True, timeout=1500)
            rc = r.returncode
            out = r.stdout
        except subprocess.TimeoutExpired:
            rc, out = 99, 'timeout'
        verdict = {0: 'MISSED', 1: 'CAUGHT', 2: 'INCONCLUSIVE'}.get(rc, 'ERROR rc=%d' % rc)
        sigs = [l.strip() for l in out.splitlines() if l.strip().startswith('violation ') or l.startswith('INCONCLUSIVE')][:3]
        results.append((sp['name'], sp['property'], '%s (%.0fs) %s' % (verdict, time.time() - t0, ' | '.join(sigs)[:300])))
    finally:
        shutil.rmtree(d, ignore_errors=True)
    print('MUTANT %-40s %-4s %s' % results[-1], flush=True)
