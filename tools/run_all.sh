#!/bin/sh
# usage: tools/run_all.sh quick|thorough [ids...]  -- runs the registered checks one after the other
cd "$(dirname "$0")/.." || exit 2
T="${1:-quick}"; shift
IDS="$*"
[ -z "$IDS" ] && IDS="C01 C02 C03 C04 C05 C06 C07 C08 C09 C10 C11 C12 C13 C14 C15 C16 C17 C18 C19 C20"
for id in $IDS; do
  s=$(date +%s)
  ./check $id $T > /tmp/check_$id.$T.log 2>&1
  rc=$?
  echo "$id $T rc=$rc $(( $(date +%s) - s ))s $(grep -c '^KNOWN-FINDING' /tmp/check_$id.$T.log) known; $(tail -1 /tmp/check_$id.$T.log | cut -c1-200)"
done
