#!/bin/sh
# usage: tools/seed_check.sh <seed-dir> <property> [tier]   -- applies seeded/<dir>/patch.diff to /repo, runs the check, reverts
D="$1"; P="$2"; T="${3:-quick}"
cd /verif || exit 2
git -C /repo apply "/verif/seeded/$D/patch.diff" || { echo "patch does not apply"; exit 3; }
VERIF_DIR=/verif timeout 2400 ./bin/p9sym run -property "$P" -tier "$T" -no-evidence 2>&1 | grep -E "violation |VIOLATION|INCONCLUSIVE|^OK|KNOWN" | cut -c1-260 | head -8
git -C /repo checkout -- .
git -C /repo status --short | head -3
