#!/bin/sh
# usage: tools/seed_confirm.sh <worktree> <seed-id> <demo-dest-relative-path>
# confirms in the scratch worktree: demo passes without the patch, fails with it, existing suite passes with it;
# then stores patch.diff, the demo and NOTES.md under /verif/seeded/<seed-id>/
export GOFLAGS=-mod=mod GOPROXY=off GOSUMDB=off GOTOOLCHAIN=local
W="$1"; ID="$2"; DEST="$3"
PK="./$(dirname "$DEST")/"
S=/verif/seeded/$ID
mkdir -p "$S"; cp "$W/_seed/patch.diff" "$W/_seed/NOTES.md" "$S/" 2>/dev/null; cp "$W/_seed/demo_test.go" "$S/demo_test.go"
cd "$W" || exit 2
git checkout -q -- . ; git clean -fdq -e _seed
cp "$S/demo_test.go" "$DEST"
echo "== demo without patch"; timeout 300 go test -vet=off -count=1 "$PK" -run 'Demo|Seed' 2>&1 | tail -3
git apply "$S/patch.diff" || { echo "PATCH DOES NOT APPLY"; exit 3; }
echo "== demo with patch"; timeout 300 go test -vet=off -count=1 "$PK" -run 'Demo|Seed' 2>&1 | tail -4
rm -f "$DEST"
echo "== suite with patch"; timeout 600 go test -vet=off -count=1 ./p9/... ./vecnet/... ./fsimpl/localfs/... ./fsimpl/staticfs/... ./fsimpl/composefs/... ./fsimpl/qids/... ./linux/... ./internal/... 2>&1 | grep -v "^ok\|no test files" | tail -5
echo "== done"
